"""Confirm a seeded change (patch.diff + demo.py) and run checks against it, in a scratch copy
of /repo outside /repo and /verif (removed afterwards).

usage: python -m simadb.seedtest <seed-dir> [--checks C01,C03] [--runs N] [--no-suite]
"""
import argparse
import json
import os
import shutil
import subprocess
import sys
import tempfile

ROOT = os.path.dirname(os.path.dirname(os.path.abspath(__file__)))
REPO = '/repo'


def scratch_with_patch(patch):
    d = tempfile.mkdtemp(prefix='simadb-seed-')
    for sub in ('adb_shell', 'tests'):
        shutil.copytree(os.path.join(REPO, sub), os.path.join(d, sub), ignore=shutil.ignore_patterns('__pycache__'))
    for f in ('setup.py', 'README.rst'):
        if os.path.exists(os.path.join(REPO, f)):
            shutil.copy(os.path.join(REPO, f), d)
    r = subprocess.run(['patch', '-p1', '--no-backup-if-mismatch', '-i', os.path.abspath(patch)], cwd=d, capture_output=True, text=True)
    if r.returncode != 0:
        shutil.rmtree(d, True)
        raise RuntimeError('patch does not apply: %s %s' % (r.stdout[-500:], r.stderr[-500:]))
    return d


def main(argv):
    ap = argparse.ArgumentParser()
    ap.add_argument('seed')
    ap.add_argument('--checks', default='')
    ap.add_argument('--runs', default=None)
    ap.add_argument('--tier', default='quick')
    ap.add_argument('--no-suite', action='store_true')
    ap.add_argument('--no-demo', action='store_true')
    a = ap.parse_args(argv)
    seed = os.path.abspath(a.seed)
    res = {'seed': os.path.basename(seed)}
    d = scratch_with_patch(os.path.join(seed, 'patch.diff'))
    try:
        env = dict(os.environ)
        if not a.no_suite:
            r = subprocess.run([sys.executable, '-m', 'pytest', '-q', '-p', 'no:cacheprovider', '--timeout=600', 'tests'], cwd=d, capture_output=True, text=True, env=env, timeout=1200)
            tail = (r.stdout.strip().splitlines() or [''])[-1]
            res['suite'] = tail
            res['suite_ok'] = r.returncode == 0 and '177 passed' in tail
        demo = os.path.join(seed, 'demo.py')
        if os.path.exists(demo) and not a.no_demo:
            e1 = dict(env, ADB_SHELL_ROOT=d)
            r1 = subprocess.run([sys.executable, demo], capture_output=True, text=True, env=e1, timeout=300, cwd=tempfile.gettempdir())
            e0 = dict(env, ADB_SHELL_ROOT=REPO)
            r0 = subprocess.run([sys.executable, demo], capture_output=True, text=True, env=e0, timeout=300, cwd=tempfile.gettempdir())
            res['demo_with_change_exit'] = r1.returncode
            res['demo_without_change_exit'] = r0.returncode
            res['demo_ok'] = r1.returncode != 0 and r0.returncode == 0
            res['demo_tail'] = (r1.stdout + r1.stderr)[-300:]
        checks = [c for c in a.checks.split(',') if c]
        res['checks'] = {}
        for pid in checks:
            e = dict(env, VERIF_REPO=d)
            cmd = [os.path.join(ROOT, 'check'), pid, '--no-corpus', '--tier', a.tier] + (['--runs', a.runs] if a.runs else [])
            r = subprocess.run(cmd, capture_output=True, text=True, env=e, timeout=3600)
            viol = [l for l in r.stdout.splitlines() if l.startswith('VIOLATION') or l.startswith('  ')][:4]
            res['checks'][pid] = {'exit': r.returncode, 'verdict': {0: 'MISSED', 1: 'CAUGHT', 2: 'HARNESS-ERROR'}.get(r.returncode, '?'), 'first': viol[:2]}
    finally:
        shutil.rmtree(d, True)
    print(json.dumps(res, indent=1))
    return 0


if __name__ == '__main__':
    sys.exit(main(sys.argv[1:]))
