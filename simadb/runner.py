"""One simulated run: build the world from a scenario, execute the actors' operations
against the real library, collect results, ground truth, monitors, probes, event log.

A scenario is a JSON-able dict (stored verbatim in replay files):
  api        'sync' | 'async'
  transport  'mem' | 'tcp' | 'usb'
  device     device world spec (see device.py)
  config     link / scheduler configuration (fragmentation, costs, faults, sched policy ...)
  actors     list of op lists; actor 0 usually starts with a connect op
  pre        ops run by actor 0 alone before the concurrent phase (threads/tasks)
  object     {'default_tt': float|None, 'banner': str, 'local_id': int|None}
"""
import asyncio
import io
import os
import shutil
import sys
import tempfile

from . import fakeusb1
from .aioloop import LoopDeadlock, SimEventLoop
from .clock import SimClock, TimeShim
from .device import Device, expand
from .lib import load
from .tape import h64
from .threads import SimCondition, SimRLock, HarnessError, Sched, SimLock
from .transport import JumpWaiter, Link, SimAbort, SimHang, make_sim_transport, make_sim_transport_async

KEYDIR = os.path.join(os.path.dirname(os.path.dirname(os.path.abspath(__file__))), 'fixtures', 'keys')
_PUBNUMS = []
_SIGNERS = {}
_TMP = {}


def pubnums():
    if not _PUBNUMS:
        for i in range(4):
            with open(os.path.join(KEYDIR, 'key%d.numbers' % i)) as f:
                n, e = f.read().split()
            _PUBNUMS.append((int(n, 16), int(e, 16)))
    return _PUBNUMS


def signer(idx, kind):
    """Real signer objects of the library (cached: loading a key costs milliseconds)."""
    k = (idx, kind)
    s = _SIGNERS.get(k)
    if s is None:
        path = os.path.join(KEYDIR, 'key%d' % idx)
        if kind == 'cryptography':
            from adb_shell.auth.sign_cryptography import CryptographySigner
            s = CryptographySigner(path)
        elif kind == 'pycryptodome':
            from adb_shell.auth.sign_pycryptodome import PycryptodomeAuthSigner
            s = PycryptodomeAuthSigner(path)
        elif kind == 'pythonrsa_u':
            # the same key, its .pub file carrying a non-ASCII comment (user@host of the machine that made it): GetPublicKey() is a str
            from adb_shell.auth.sign_pythonrsa import PythonRSASigner
            with open(path + '.pub') as f:
                pub = f.read().split(' ')[0] + ' j\u00fcrgen@b\u00fcro-pc'
            with open(path) as f:
                priv = f.read()
            s = PythonRSASigner(pub=pub, priv=priv)
        else:
            from adb_shell.auth.sign_pythonrsa import PythonRSASigner
            s = PythonRSASigner.FromRSAKeyPath(path)
        _SIGNERS[k] = s
    return s


def tmpdir():
    d = _TMP.get('d')
    if d is None or _TMP.get('pid') != os.getpid():
        d = tempfile.mkdtemp(prefix='simadb-%d-' % os.getpid())
        _TMP['d'] = d
        _TMP['pid'] = os.getpid()
        import atexit
        atexit.register(shutil.rmtree, d, True)
    return d


class EventLog(object):
    def __init__(self):
        self.events = []

    def ev(self, *t):
        self.events.append(t)

    def digest(self):
        return h64(self.events)


class Run(object):
    """Everything observable about one execution."""
    def __init__(self):
        self.results = []        # per actor: list of op records
        self.device = None
        self.link = None
        self.clock = None
        self.log = None
        self.sched = None
        self.abort = None        # None | 'deadlock' | 'hang' | 'step-cap' | ...
        self.deadlock = None
        self.harness = None
        self.probes = {}
        self.obj = None
        self.store_shadow = None
        self.usb = None
        self.sock = None

    def digest(self):
        parts = [self.log.digest()]
        for a in self.results:
            for r in a:
                parts.append((r['op'], r.get('exc'), _dig(r.get('value'))))
        return h64(parts)


def _dig(v):
    if isinstance(v, (bytes, bytearray)):
        return h64(bytes(v))
    if isinstance(v, (list, tuple)):
        return h64([_dig(x) for x in v])
    return repr(v)


class Abort(Exception):
    pass


# ----------------------------------------------------------------------------------------
class CallbackInterrupt(BaseException):
    """What a progress callback raises in the 'raise_base' scenarios: derived from BaseException, like
    GeneratorExit / KeyboardInterrupt / asyncio.CancelledError, so `except Exception` does not stop it."""


class OpRunner(object):
    """Interprets op dicts against a device object (sync or async)."""

    def __init__(self, run, scn, dev_obj, is_async):
        self.run = run
        self.scn = scn
        self.dev = dev_obj
        self.is_async = is_async
        self.files = {}
        self.cb_log = []

    # helpers --------------------------------------------------------------------------------
    def _kw(self, op, names):
        kw = {}
        for short, full in names:
            if short in op:
                kw[full] = op[short]
        return kw

    def _keys(self, op):
        ks = op.get('keys')
        if ks is None:
            return None
        return [signer(i, kind) for (i, kind) in ks]

    def _callback(self, op, rec):
        kind = op.get('cb')
        if not kind:
            return None
        calls = rec.setdefault('cb_calls', [])

        dev = self.dev
        is_async = self.is_async

        def cb(path, n, total):
            calls.append((path, n, total))
            if kind == 'raise':
                raise RuntimeError('progress callback failed (scenario)')
            if kind == 'raise_base':
                raise CallbackInterrupt('progress callback failed with something that is not an Exception (scenario)')
            if kind == 'reenter' and not is_async and len(calls) <= 3:
                # a callback that uses the device (legal): another sync transaction while the transfer is in progress
                rec.setdefault('reenter', []).append(dev.stat(op.get('reenter_path', '/sdcard/reenter')))
        return cb

    def _auth_cb(self, op, rec):
        kind = op.get('auth_cb')
        if not kind:
            return None
        rec['auth_cb_calls'] = 0
        link = self.run.link

        def cb(x):
            rec['auth_cb_calls'] += 1
            rec['auth_cb_available'] = bool(self.dev.available)      # what the application sees if it looks while connect() is under way
            rec['auth_cb_written'] = link.bytes_written
            rec['auth_cb_pkts'] = len(self.run.device.host_pkts)
            if kind == 'raise':
                raise RuntimeError('auth callback failed (scenario)')
        return cb

    def _local_src(self, op, rec):
        """Materialise the push source; returns (local_path_or_bytesio, cleanup)."""
        src = op.get('src', 'bytesio')
        if src == 'bytesio':
            data = expand(op['content'])
            pos = min(int(op.get('src_pos', 0)), len(data))
            rec['src_bytes'] = data[pos:]          # a stream is pushed from its current position
            bio = io.BytesIO(data)
            bio.seek(pos)
            return bio
        base = os.path.join(tmpdir(), 'push')
        shutil.rmtree(base, True)
        os.makedirs(base)
        if src == 'file':
            data = expand(op['content'])
            rec['src_bytes'] = data
            p = os.path.join(base, op.get('local_name', 'file.bin'))
            with open(p, 'wb') as f:
                f.write(data)
            return p
        if src == 'dir':
            d = os.path.join(base, op.get('local_name', 'dir'))
            os.makedirs(d)
            files = {}
            for ent in op['files']:
                data = expand(ent['content'])
                files[ent['name']] = data
                with open(os.path.join(d, ent['name']), 'wb') as f:
                    f.write(data)
            for sub in op.get('subdirs', []):
                os.makedirs(os.path.join(d, sub))
            rec['src_files'] = files
            # a decoy with the same names in the process cwd (must never be read)
            cwd = os.path.join(base, 'cwd')
            os.makedirs(cwd)
            if op.get('decoy') == 'dirs':
                # the cwd holds *directories* with the names of the pushed files
                for ent in op['files']:
                    os.makedirs(os.path.join(cwd, ent['name']))
            elif op.get('decoy'):
                for ent in op['files']:
                    with open(os.path.join(cwd, ent['name']), 'wb') as f:
                        f.write(b'DECOY-' + ent['name'].encode())
            rec['cwd'] = cwd
            rec['listdir_order'] = op.get('order')
            return d
        raise AssertionError(src)

    # sync -------------------------------------------------------------------------------------
    def _maybe_reset(self):
        cfg = self.run.link.cfg
        at = cfg.get('reset_at_op')
        self.opn = getattr(self, 'opn', -1) + 1
        if at is not None and self.opn == at:
            # the peer resets the connection now (RST): every later call on this connection fails
            link = self.run.link
            link.dead = 'reset'
            link.faults_fired.append((link.ncalls, 'reset', 'peer'))
            link.monitor_overread = False
            for tr in getattr(self.run, 'aio_transports', []):
                if not tr.closed:
                    tr.loop.call_soon(tr._lost, ConnectionResetError(104, 'Connection reset by peer (injected)'))

    def do(self, op):
        rec = {'op': op['op'], 'spec': op, 'ok': False, 'value': None, 'exc': None}
        run = self.run
        link = run.link
        self._maybe_reset()
        rec['t0'] = run.clock.now
        rec['w0'] = link.bytes_written
        rec['calls0'] = link.ncalls
        rec['pk0'] = len(run.device.host_pkts)
        rec['avail0'] = bool(self.dev.available)
        try:
            rec['value'] = self._do(op, rec)
            rec['ok'] = True
        except (SimAbort, SimHang) as e:
            rec['exc'] = type(e).__name__
            rec['msg'] = str(e)
            rec['t1'] = run.clock.now
            rec['w1'] = link.bytes_written
            rec['avail1'] = bool(self.dev.available)
            rec['boundary'] = run.device.at_message_boundary()
            raise
        except HarnessError:
            raise
        except BaseException as e:   # noqa
            rec['exc'] = type(e).__name__
            rec['msg'] = str(e)[:300]
            rec['exc_obj'] = e
        rec['t1'] = run.clock.now
        rec['w1'] = link.bytes_written
        rec['calls1'] = link.ncalls
        rec['pk1'] = len(run.device.host_pkts)
        rec['avail1'] = bool(self.dev.available)
        rec['boundary'] = run.device.at_message_boundary()
        if op['op'] in ('connect', 't_connect') and getattr(run, 'usb', None) is not None:
            from . import fakeusb1
            fakeusb1.CALLS.append(('connect-result', rec['ok']))     # lets the USB oracle tell use after a *failed* connect (the caller's business) from the rest
        return rec

    def _do(self, op, rec):
        d = self.dev
        k = op['op']
        T = (('tt', 'transport_timeout_s'), ('rt', 'read_timeout_s'), ('to', 'timeout_s'))
        if k == 'connect':
            kw = self._kw(op, (('tt', 'transport_timeout_s'), ('rt', 'read_timeout_s'), ('at', 'auth_timeout_s')))
            return d.connect(rsa_keys=self._keys(op), auth_callback=self._auth_cb(op, rec), **kw)
        if k == 'close':
            if op.get('fail'):
                self.run.link.fail_next_close = True      # the transport's own close() raises
            return d.close()
        if k == 'available':
            return d.available
        if k == 'locks':
            return _lock_states(d)
        if k == 'coro_create':
            self.files['pending_op'] = op['inner']      # sync API: there is nothing to create ahead of time
            return None
        if k == 'coro_await':
            inner = self.files.pop('pending_op', None)
            return None if inner is None else self._do(inner, rec)
        if k == 'ghost':
            # another AdbDevice object of the same process -- own transport, own device -- does some work now and is then left behind
            # with its streams open and packets parked. Nothing of that may be visible to this object.
            from .tape import Tape, h64
            sub = execute(op['scn'], Tape(h64('ghost', op.get('seed', 0))))
            self.run.ghosts = getattr(self.run, 'ghosts', []) + [sub]
            rec['ghost_parked'] = bool(sub.store_shadow is not None and sub.store_shadow.model.pending())
            return None
        if k == 'ghost_resume':
            # the other object goes on with the generator it had left suspended
            subs = getattr(self.run, 'ghosts', [])
            if not subs:
                return None
            r = subs[0].runner.do({'op': 'ss_consume', 'rt': 5.0})
            rec['ghost_rec'] = r
            return r['value'] if r['ok'] else ('raised', r['exc'])
        if k == 'usb_heal':
            b = self.run.usb
            b.plan.clear()
            b.spec['named_faults'] = []
            b.unplugged = False          # the cable is back
            return None
        if k == 'maxchunk':
            return d.max_chunk_size
        if k in ('shell', 'exec_out'):
            return getattr(d, k)(op['cmd'], decode=op.get('decode', True), **self._kw(op, T))
        if k == 'root':
            return d.root(**self._kw(op, T))
        if k == 'reboot':
            return d.reboot(fastboot=op.get('fastboot', False), **self._kw(op, T))
        if k == 'streaming_shell':
            gen = d.streaming_shell(op['cmd'], decode=op.get('decode', True), **self._kw(op, T[:2]))
            out = []
            nested = op.get('nested')
            after = op.get('nested_after', 1)
            rec['nested'] = []
            i = 0
            for item in gen:
                out.append(item)
                i += 1
                if nested and i == after:
                    for nop in nested:
                        rec['nested'].append(self.do(nop))
            if nested and i < after:
                for nop in nested:
                    rec['nested'].append(self.do(nop))
            return out
        if k == 'ss_create':
            # create the generator now, iterate it later (the connection may be closed in between)
            self.files['ss_gen'] = d.streaming_shell(op['cmd'], decode=op.get('decode', True), **self._kw(op, T[:2]))
            return None
        if k == 'ss_consume':
            gen = self.files.pop('ss_gen', None)
            if gen is None:
                return []
            return [item for item in gen]
        if k == 'ss_next':
            # take up to n items and leave the generator suspended in the middle of the stream
            gen = self.files.get('ss_gen')
            out = []
            if gen is not None:
                try:
                    for _ in range(op.get('n', 1)):
                        out.append(next(gen))
                except StopIteration:
                    self.files.pop('ss_gen', None)
                except BaseException:
                    self.files.pop('ss_gen', None)
                    raise
            return out
        if k == 'ss_drop':
            # let go of a (possibly half-read) generator: close() it, or just drop the last reference
            gen = self.files.pop('ss_gen', None)
            if gen is not None:
                if op.get('how', 'close') == 'close':
                    gen.close()
                else:
                    del gen
                    import gc
                    gc.collect()
            return None
        if k == 'list':
            return d.list(op['path'], **self._kw(op, T[:2]))
        if k == 'stat':
            return d.stat(op['path'], **self._kw(op, T[:2]))
        if k == 'pull':
            cb = self._callback(op, rec)
            if op.get('dest', 'bytesio') in ('bytesio', 'failing'):
                bio = io.BytesIO() if op.get('dest', 'bytesio') == 'bytesio' else _FailingBytesIO(op.get('fail_after', 1), rec)
                rec['dest_obj'] = bio
                try:
                    d.pull(op['path'], bio, progress_callback=cb, **self._kw(op, T[:2]))
                finally:
                    rec['dest_bytes'] = bio.getvalue()
                return None
            p = os.path.join(tmpdir(), 'pull-%d.bin' % self.run.clock.now)
            p = os.path.join(tmpdir(), op.get('local_name', 'pulled.bin'))
            if os.path.exists(p):
                os.unlink(p)
            if op.get('prefill'):
                with open(p, 'wb') as f:
                    f.write(b'OLD-CONTENT-' * (int(op['prefill']) // 12 + 1))      # the destination exists already and may be longer than what is pulled
            rec['dest_path'] = p
            parent_existed = os.path.isdir(os.path.dirname(p))
            lp = p
            if op.get('dest') == 'pathlib':
                import pathlib
                lp = pathlib.Path(p)       # any path-like names the destination file, as for open()
            elif op.get('dest') == 'bytes_path':
                lp = os.fsencode(p)
            try:
                d.pull(op['path'], lp, progress_callback=cb, **self._kw(op, T[:2]))
            finally:
                rec['dest_exists'] = os.path.exists(p)
                if rec['dest_exists']:
                    with open(p, 'rb') as f:
                        rec['dest_bytes'] = f.read()
                    os.unlink(p)
                if not parent_existed and os.path.isdir(os.path.dirname(p)):
                    rec['dest_parent_created'] = True
                    shutil.rmtree(os.path.join(tmpdir(), op.get('local_name', 'x').split('/')[0]), True)
            return None
        if k == 'push':
            cb = self._callback(op, rec)
            src = self._local_src(op, rec)
            kw = self._kw(op, T[:2])
            if 'mode' in op:
                kw['st_mode'] = op['mode']
            if 'mtime' in op:
                kw['mtime'] = op['mtime']
            old = os.getcwd()
            hh = load()['hidden_helpers']
            real_listdir = os.listdir
            ad = load()['adb_device']
            try:
                if 'cwd' in rec:
                    os.chdir(rec['cwd'])
                    order = rec.get('listdir_order')
                    if order:
                        hh.os = _OsShim(order, src)
                ad.open = _open_shim(self.run.tape)      # the library's view of open(): raw opens read short, as raw files may
                d.push(src, op['path'], progress_callback=cb, **kw)
            finally:
                if 'open' in vars(ad):
                    del ad.open
                hh.os = os
                os.chdir(old)
                del real_listdir
            return None
        if k == 'sleep':
            self.run.clock.advance(op.get('dt', 1.0))
            return None
        if k.startswith('t_'):
            tr = self.run.transport
            if k == 't_connect':
                r = tr.connect(op.get('timeout'))
                if hasattr(self.run.device, 'start'):
                    self.run.device.start(self.run.clock.now)
                return r
            if k == 't_close':
                return tr.close()
            if k == 't_read':
                if op.get('timeout') is None and not _more_possible(self.run):
                    rec['skipped'] = True
                    return b''
                return tr.bulk_read(op['n'], op.get('timeout'))
            if k == 't_write':
                return tr.bulk_write(expand(op['content']), op.get('timeout'))
            # a second TcpTransport object of the same process, connected to another peer ('sibling-device')
            if k == 't_sib_connect':
                w = self.run.tcp_world
                w.sibling_inbox = expand(op['inbox'])
                self.sib = type(tr)('sibling-device', 5555)
                return self.sib.connect(op.get('timeout'))
            if k == 't_sib_read':
                return self.sib.bulk_read(op['n'], op.get('timeout'))
            if k == 't_sib_write':
                return self.sib.bulk_write(expand(op['content']), op.get('timeout'))
            if k == 't_sib_close':
                return self.sib.close()
        raise AssertionError('unknown op %r' % k)

    # async ------------------------------------------------------------------------------------
    async def ado(self, op):
        rec = {'op': op['op'], 'spec': op, 'ok': False, 'value': None, 'exc': None}
        run = self.run
        link = run.link
        self._maybe_reset()
        rec['t0'] = run.clock.now
        rec['w0'] = link.bytes_written
        rec['calls0'] = link.ncalls
        rec['pk0'] = len(run.device.host_pkts)
        rec['avail0'] = bool(self.dev.available)
        try:
            rec['value'] = await self._ado(op, rec)
            rec['ok'] = True
        except (SimAbort, SimHang, LoopDeadlock, asyncio.CancelledError) as e:
            rec['exc'] = type(e).__name__
            rec['msg'] = str(e)
            rec['t1'] = run.clock.now
            rec['w1'] = link.bytes_written
            rec['avail1'] = bool(self.dev.available)
            rec['boundary'] = run.device.at_message_boundary()
            raise
        except BaseException as e:   # noqa
            rec['exc'] = type(e).__name__
            rec['msg'] = str(e)[:300]
            rec['exc_obj'] = e
        rec['t1'] = run.clock.now
        rec['w1'] = link.bytes_written
        rec['calls1'] = link.ncalls
        rec['pk1'] = len(run.device.host_pkts)
        rec['avail1'] = bool(self.dev.available)
        rec['boundary'] = run.device.at_message_boundary()
        return rec

    async def _ado(self, op, rec):
        d = self.dev
        k = op['op']
        T = (('tt', 'transport_timeout_s'), ('rt', 'read_timeout_s'), ('to', 'timeout_s'))
        if k == 'connect':
            kw = self._kw(op, (('tt', 'transport_timeout_s'), ('rt', 'read_timeout_s'), ('at', 'auth_timeout_s')))
            return await d.connect(rsa_keys=self._keys(op), auth_callback=self._auth_cb(op, rec), **kw)
        if k == 'close':
            if op.get('fail'):
                self.run.link.fail_next_close = True
            return await d.close()
        if k == 'available':
            return d.available
        if k == 'locks':
            return _lock_states(d)
        if k == 'maxchunk':
            return d.max_chunk_size
        if k in ('shell', 'exec_out'):
            return await getattr(d, k)(op['cmd'], decode=op.get('decode', True), **self._kw(op, T))
        if k == 'root':
            return await d.root(**self._kw(op, T))
        if k == 'reboot':
            return await d.reboot(fastboot=op.get('fastboot', False), **self._kw(op, T))
        if k == 'streaming_shell':
            gen = d.streaming_shell(op['cmd'], decode=op.get('decode', True), **self._kw(op, T[:2]))
            out = []
            nested = op.get('nested')
            after = op.get('nested_after', 1)
            rec['nested'] = []
            i = 0
            async for item in gen:
                out.append(item)
                i += 1
                if nested and i == after:
                    for nop in nested:
                        rec['nested'].append(await self.ado(nop))
            if nested and i < after:
                for nop in nested:
                    rec['nested'].append(await self.ado(nop))
            return out
        if k == 'coro_create':
            # the coroutine object of an operation is created now and awaited later (create_task / gather do the same)
            inner = op['inner']
            ik = inner['op']
            if ik in ('shell', 'exec_out'):
                co = getattr(d, ik)(inner['cmd'], decode=inner.get('decode', True), **self._kw(inner, T))
            elif ik == 'root':
                co = d.root(**self._kw(inner, T))
            elif ik == 'reboot':
                co = d.reboot(**self._kw(inner, T))
            elif ik == 'stat':
                co = d.stat(inner['path'], **self._kw(inner, T[:2]))
            else:
                co = d.list(inner['path'], **self._kw(inner, T[:2]))
            self.files['pending_coro'] = co
            return None
        if k == 'coro_await':
            co = self.files.pop('pending_coro', None)
            return None if co is None else await co
        if k == '_drop_pending_coro':
            co = self.files.pop('pending_coro', None)
            if co is not None:
                co.close()      # never awaited (the scenario ended first): close it quietly
            return None
        if k == 'ss_create':
            self.files['ss_gen'] = d.streaming_shell(op['cmd'], decode=op.get('decode', True), **self._kw(op, T[:2]))
            return None
        if k == 'ss_consume':
            gen = self.files.pop('ss_gen', None)
            if gen is None:
                return []
            out = []
            async for item in gen:
                out.append(item)
            return out
        if k == 'ss_next':
            gen = self.files.get('ss_gen')
            out = []
            if gen is not None:
                try:
                    for _ in range(op.get('n', 1)):
                        out.append(await gen.__anext__())
                except StopAsyncIteration:
                    self.files.pop('ss_gen', None)
                except BaseException:
                    self.files.pop('ss_gen', None)
                    raise
            return out
        if k == 'ss_drop':
            gen = self.files.pop('ss_gen', None)
            if gen is not None:
                if op.get('how', 'close') == 'close':
                    await gen.aclose()
                else:
                    del gen
                    import gc
                    gc.collect()
                    # the loop's asyncgen finaliser schedules aclose(); let it run
                    for _ in range(4):
                        await asyncio.sleep(0)
            return None
        if k == 'list':
            return await d.list(op['path'], **self._kw(op, T[:2]))
        if k == 'stat':
            return await d.stat(op['path'], **self._kw(op, T[:2]))
        if k == 'pull':
            cb = self._callback(op, rec)
            if op.get('dest', 'bytesio') in ('bytesio', 'failing'):
                bio = io.BytesIO() if op.get('dest', 'bytesio') == 'bytesio' else _FailingBytesIO(op.get('fail_after', 1), rec)
                rec['dest_obj'] = bio
                try:
                    await d.pull(op['path'], bio, progress_callback=cb, **self._kw(op, T[:2]))
                finally:
                    rec['dest_bytes'] = bio.getvalue()
                return None
            p = os.path.join(tmpdir(), op.get('local_name', 'pulled.bin'))
            if os.path.exists(p):
                os.unlink(p)
            if op.get('prefill'):
                with open(p, 'wb') as f:
                    f.write(b'OLD-CONTENT-' * (int(op['prefill']) // 12 + 1))
            rec['dest_path'] = p
            parent_existed = os.path.isdir(os.path.dirname(p))
            try:
                lp = p
                if op.get('dest') == 'pathlib':
                    import pathlib
                    lp = pathlib.Path(p)
                elif op.get('dest') == 'bytes_path':
                    lp = os.fsencode(p)
                await d.pull(op['path'], lp, progress_callback=cb, **self._kw(op, T[:2]))
            finally:
                rec['dest_exists'] = os.path.exists(p)
                if rec['dest_exists']:
                    with open(p, 'rb') as f:
                        rec['dest_bytes'] = f.read()
                    os.unlink(p)
                if not parent_existed and os.path.isdir(os.path.dirname(p)):
                    rec['dest_parent_created'] = True
                    shutil.rmtree(os.path.join(tmpdir(), op.get('local_name', 'x').split('/')[0]), True)
            return None
        if k == 'push':
            cb = self._callback(op, rec)
            src = self._local_src(op, rec)
            kw = self._kw(op, T[:2])
            if 'mode' in op:
                kw['st_mode'] = op['mode']
            if 'mtime' in op:
                kw['mtime'] = op['mtime']
            old = os.getcwd()
            hh = load()['hidden_helpers']
            try:
                if 'cwd' in rec:
                    os.chdir(rec['cwd'])
                    order = rec.get('listdir_order')
                    if order:
                        hh.os = _OsShim(order, src)
                await d.push(src, op['path'], progress_callback=cb, **kw)
            finally:
                hh.os = os
                os.chdir(old)
            return None
        if k == 'sleep':
            await asyncio.sleep(op.get('dt', 1.0))
            return None
        if k.startswith('t_'):
            tr = self.run.transport
            if k == 't_connect':
                r = await tr.connect(op.get('timeout'))
                if hasattr(self.run.device, 'start'):
                    self.run.device.start(self.run.clock.now)
                    if self.run.link.kick is not None:
                        self.run.link.kick()
                return r
            if k == 't_close':
                return await tr.close()
            if k == 't_read':
                if op.get('timeout') is None and not _more_possible(self.run):
                    rec['skipped'] = True
                    return b''
                return await tr.bulk_read(op['n'], op.get('timeout'))
            if k == 't_write':
                return await tr.bulk_write(expand(op['content']), op.get('timeout'))
        raise AssertionError('unknown op %r' % k)


class _FailingBytesIO(io.BytesIO):
    """A destination whose n-th write fails (disk full): the pull must stop and close its stream."""
    def __init__(self, ok_writes, rec):
        io.BytesIO.__init__(self)
        self._ok = ok_writes
        self._rec = rec

    def write(self, data):
        if self._ok <= 0:
            self._rec['dest_raised'] = True
            raise OSError(28, 'No space left on device (scenario)')
        self._ok -= 1
        return io.BytesIO.write(self, data)


def _more_possible(run):
    """Can a read without a timeout ever return? (raw peer scripts only)"""
    d = run.device
    return bool(getattr(d, 'q', None)) or run.link.cur is not None


class _ShortRaw(object):
    """A raw (unbuffered) binary file as RawIOBase documents it: read(n) may return fewer than n bytes before end-of-file
    (pipes, ttys, procfs and FUSE files do). Only what is opened with buffering=0 behaves like this; buffered opens are untouched."""

    def __init__(self, f, tape):
        self._f = f
        self._tape = tape

    def read(self, n=-1):
        if n is None or n < 0 or n <= 1:
            return self._f.read(n)
        k = self._tape.draw('rawread', 4)
        m = n if k == 0 else max(1, (n * k) // 4 - 1)
        return self._f.read(m)

    def __getattr__(self, name):
        return getattr(self._f, name)

    def __enter__(self):
        return self

    def __exit__(self, *a):
        self._f.close()
        return False


def _open_shim(tape):
    import builtins

    def _open(path, mode='r', buffering=-1, *a, **kw):
        f = builtins.open(path, mode, buffering, *a, **kw)
        if buffering == 0 and 'b' in mode and 'r' in mode:
            return _ShortRaw(f, tape)
        return f
    return _open


class _OsShim(object):
    """`os` as seen by hidden_helpers: listdir order of the pushed directory comes from the scenario."""
    def __init__(self, order, directory):
        self._order = order
        self._dir = directory

    def __getattr__(self, name):
        return getattr(os, name)

    def listdir(self, path='.'):
        names = os.listdir(path)
        if os.path.realpath(path) == os.path.realpath(self._dir):
            known = [n for n in self._order if n in names]
            rest = sorted(n for n in names if n not in known)
            return known + rest
        return sorted(names)


# ----------------------------------------------------------------------------------------
def _patch_time(mod_names, clock):
    L = load()
    shim = TimeShim(clock)
    saved = []
    for m in mod_names:
        mod = L[m]
        saved.append((mod, mod.time))
        mod.time = shim
    # any other reference to the real clock in the library (none on the pinned tree: `from time import monotonic` in the packet
    # store, say) is pointed at the simulated one, too
    from .clock import patch_clock_refs
    extra = []
    for m in ('hidden_helpers', 'adb_message') + tuple(mod_names):
        mod = L.get(m) if hasattr(L, 'get') else None
        if mod is not None:
            extra += patch_clock_refs(mod, shim)
    saved.append(('refs', extra))
    return saved


def _unpatch(saved):
    from .clock import unpatch_clock_refs
    for mod, val in saved:
        if mod == 'refs':
            unpatch_clock_refs(val)
        else:
            mod.time = val


def _replace_real_locks(obj, sched, seen=None):
    """Any remaining _thread.lock reachable from the device object is replaced (a refactor
    that creates locks differently must still be scheduled cooperatively)."""
    import _thread
    n = 0
    for holder in (obj, getattr(obj, '_io_manager', None)):
        if holder is None:
            continue
        for k, v in list(vars(holder).items()):
            if isinstance(v, _thread.LockType):
                setattr(holder, k, SimLock(sched, k))
                n += 1
    return n


def build(scn, tape):
    run = Run()
    run.tape = tape
    run.clock = SimClock()
    run.log = EventLog()
    dspec = scn['device']
    if dspec.get('raw_peer'):
        from .rawpeer import RawPeer
        run.device = RawPeer(dspec, tape)
    else:
        run.device = Device(dspec, tape, run.log)
        run.device.pubkeys = pubnums()
    cfg = scn.get('config', {})
    run.link = Link(run.device, run.clock, tape, cfg, run.log)
    return run


def _mk_transport_sync(scn, run, waiter):
    kind = scn.get('transport', 'mem')
    if kind == 'mem':
        return make_sim_transport(run.link, waiter), None
    if kind == 'tcp':
        from . import simsock
        return simsock.make_tcp_transport(scn, run, waiter)
    if kind == 'usb':
        from . import usbworld
        return usbworld.make_usb_transport(scn, run, waiter)
    raise AssertionError(kind)


def execute(scn, tape):
    """Run a scenario; never raises for library behaviour (HarnessError for harness trouble)."""
    L = load()
    lg = old_level = None
    if scn.get('config', {}).get('log_debug'):
        # the application runs with DEBUG logging switched on for the library (no handler attached: records are dropped unformatted)
        import logging
        lg = logging.getLogger('adb_shell')
        old_level = lg.level
        lg.setLevel(logging.DEBUG)
    try:
        if scn.get('api', 'sync') == 'async':
            run = _execute_async(scn, tape, L)
        else:
            run = _execute_sync(scn, tape, L)
    finally:
        if lg is not None:
            lg.setLevel(old_level)
    if lg is not None:
        run.probes['debug_logging_on'] = 1
    return run


def _finish(run):
    dev = run.device
    run.probes = dict(dev.probes)
    link = run.link
    for k in ('frag_reads', 'empty_reads', 'hdr_split', 'payload_split', 'short_writes'):
        v = getattr(link, k)
        if v:
            run.probes[k] = v
    if getattr(link, 'bp_pauses', 0):
        run.probes['backpressure_pause'] = link.bp_pauses
    for (idx, kind, op) in link.faults_fired:
        run.probes['fault_' + kind] = run.probes.get('fault_' + kind, 0) + 1
    if run.sched is not None:
        for k, v in run.sched.probes.items():
            run.probes[k] = run.probes.get(k, 0) + v
        if run.sched.switches:
            run.probes['context_switches'] = len(run.sched.switches)
    if run.store_shadow is not None:
        for k, v in run.store_shadow.probes.items():
            run.probes[k] = run.probes.get(k, 0) + v
    return run


def _execute_sync(scn, tape, L):
    run = build(scn, tape)
    cfg = scn.get('config', {})
    actors = scn['actors']
    multi = len(actors) > 1 or cfg.get('force_sched')
    adb_device = L['adb_device']
    saved = _patch_time(['adb_device'], run.clock)
    saved_lock = adb_device.Lock
    saved_rlock = None
    saved_cond = None
    sched = None
    try:
        if multi:
            trace = ()
            if cfg.get('sched', 'coarse') != 'coarse':
                trace = (adb_device.__file__, L['hidden_helpers'].__file__)
            c2 = dict(cfg)
            c2['trace_files'] = trace
            sched = Sched(tape, run.clock, c2, run.log)
            run.sched = sched
            waiter = sched
            run.link.kick = sched.kick_io
            counter = [0]

            def mk_lock():
                counter[0] += 1
                return SimLock(sched, 'L%d' % counter[0])

            def mk_rlock():
                counter[0] += 1
                return SimRLock(sched, 'R%d' % counter[0])
            adb_device.Lock = mk_lock
            if hasattr(adb_device, 'RLock'):
                # not on the pinned tree; a lock of any kind that the library creates must be a cooperative one, or the baton is lost
                saved_rlock = adb_device.RLock
                adb_device.RLock = mk_rlock
            if hasattr(adb_device, 'Condition'):
                saved_cond = adb_device.Condition
                adb_device.Condition = SimCondition
        else:
            waiter = JumpWaiter(run.clock)
            counter = [0]

            def mk_lock():
                counter[0] += 1
                return SimLock(None, 'L%d' % counter[0])

            def mk_rlock():
                counter[0] += 1
                return SimRLock(None, 'R%d' % counter[0])
            adb_device.Lock = mk_lock
            if hasattr(adb_device, 'RLock'):
                saved_rlock = adb_device.RLock
                adb_device.RLock = mk_rlock
            if hasattr(adb_device, 'Condition'):
                saved_cond = adb_device.Condition
                adb_device.Condition = SimCondition
        transport, extra = _mk_transport_sync(scn, run, waiter)
        run.transport = transport
        o = scn.get('object', {})
        if scn.get('transport') == 'usb' and scn.get('usb', {}).get('via_class'):
            from . import usbworld
            obj = usbworld.make_device_obj(scn, run, L)
        else:
            obj = adb_device.AdbDevice(transport, default_transport_timeout_s=o.get('default_tt'), banner=o.get('banner', 'simhost'))
        # (Lock stays substituted until the run ends: a lock the library creates lazily must be cooperative too)
        if True:
            # name the locks after their attribute for readable deadlock reports
            for holder in (obj, obj._io_manager):
                for k, v in vars(holder).items():
                    if isinstance(v, SimLock):
                        v.name = k
            _replace_real_locks(obj, sched)
        if o.get('local_id') is not None:
            obj._local_id = o['local_id']
        run.obj = obj
        if cfg.get('shadow_store', True):
            from .storemodel import attach_shadow
            run.store_shadow = attach_shadow(obj._io_manager, run, L)
        runner = OpRunner(run, scn, obj, False)
        run.runner = runner
        run.results = [[] for _ in actors]
        run.pre = []
        if multi and cfg.get('track_states', True):
            sched.state_fn = lambda: _abstract_state(run)
        if not multi:
            try:
                for op in scn.get('pre', []) + actors[0]:
                    rec = runner.do(op)
                    run.results[0].append(rec)
                    if not rec['ok'] and cfg.get('stop_on_error'):
                        break
                run.post = []
                for op in scn.get('post', []):
                    run.post.append(runner.do(op))
            except SimHang as e:
                run.abort = 'hang'
                run.abort_msg = str(e)
            except SimAbort as e:
                run.abort = 'step-cap'
                run.abort_msg = str(e)
        else:
            try:
                for op in scn.get('pre', []):
                    run.pre.append(runner.do(op))
            except (SimHang, SimAbort) as e:
                run.abort = 'pre:' + type(e).__name__
                return _finish(run)

            def mk(i, ops):
                def body():
                    for op in ops:
                        try:
                            run.results[i].append(runner.do(op))
                        except SimHang:
                            run.results[i].append({'op': op['op'], 'spec': op, 'ok': False, 'exc': 'SimHang', 'value': None})
                            raise SimAbort('hang')
                return body
            for i, ops in enumerate(actors):
                sched.spawn(mk(i, ops), 'A%d' % i)
            sched.run()
            if sched.aborting:
                run.abort = sched.aborting
                run.deadlock = sched.deadlock
            # post ops (single-threaded again, scheduler inactive)
            run.post = []
            if not run.abort:
                try:
                    for op in scn.get('post', []):
                        run.post.append(runner.do(op))
                except (SimHang, SimAbort) as e:
                    run.abort = 'post:' + type(e).__name__
        run.locks = _lock_states(obj)
    finally:
        adb_device.Lock = saved_lock
        if saved_rlock is not None:
            adb_device.RLock = saved_rlock
        if saved_cond is not None:
            adb_device.Condition = saved_cond
        _unpatch(saved)
        L['hidden_helpers'].os = os
        if scn.get('transport') == 'tcp':
            from . import simsock
            simsock.restore_tcp_module()
        if sys.gettrace() is not None and sched is not None:
            sys.settrace(None)
    return _finish(run)


def _abstract_state(run):
    """(per-stream phase, store occupancy signature, lock owners) — hashed; sampled at context switches."""
    dev = run.device
    streams = tuple((s.local, len(s.sent_payloads), len(s.read_payloads), s.dev_clse_emitted, s.host_closed) for s in dev.streams.values())
    sh = run.store_shadow
    store = tuple(sorted((k, len(v)) for k, v in sh.model.q.items() if v)) if sh is not None else ()
    locks = []
    obj = run.obj
    for holder in (obj, getattr(obj, '_io_manager', None)):
        for k, v in sorted(vars(holder).items()):
            if isinstance(v, SimLock):
                locks.append(getattr(v.owner, 'idx', None))
    return h64((streams, store, tuple(locks)))


def _lock_states(obj):
    out = {}
    for holder in (obj, getattr(obj, '_io_manager', None)):
        if holder is None:
            continue
        for k, v in vars(holder).items():
            if hasattr(v, 'locked') and callable(v.locked) and 'lock' in k:
                try:
                    out[k] = bool(v.locked())
                except Exception:   # noqa
                    out[k] = None
    return out


def _close_loop(loop):
    """Tear the loop down without leaking pending tasks / async generators into later runs."""
    import gc
    try:
        pending = [t for t in asyncio.all_tasks(loop) if not t.done()]
        for t in pending:
            t.cancel()
        loop._scheduled.clear()
        if pending:
            async def _drain():
                await asyncio.gather(*pending, return_exceptions=True)
            try:
                loop.run_until_complete(loop.create_task(_drain(), name='drain'))
            except BaseException:    # noqa
                pass
        gc.collect()
        try:
            loop.run_until_complete(loop.create_task(loop.shutdown_asyncgens(), name='shutdown-asyncgens'))
        except BaseException:    # noqa
            pass
        loop._ready.clear()
        loop._scheduled.clear()
    finally:
        try:
            loop.close()
        except BaseException:    # noqa
            pass


def _execute_async(scn, tape, L):
    run = build(scn, tape)
    cfg = scn.get('config', {})
    actors = scn['actors']
    mod = L['adb_device_async']
    saved = _patch_time(['adb_device_async'], run.clock)
    loop = SimEventLoop(run.clock)
    run.loop = loop
    try:
        kind = scn.get('transport', 'mem')
        if kind == 'mem':
            transport = make_sim_transport_async(run.link, loop)
        elif kind == 'tcp':
            from . import simsock
            transport = simsock.make_tcp_transport_async(scn, run, loop)
        else:
            raise AssertionError(kind)
        run.transport = transport
        o = scn.get('object', {})
        obj = mod.AdbDeviceAsync(transport, default_transport_timeout_s=o.get('default_tt'), banner=o.get('banner', 'simhost'))
        if o.get('local_id') is not None:
            obj._local_id = o['local_id']
        run.obj = obj
        if cfg.get('shadow_store', True):
            from .storemodel import attach_shadow
            run.store_shadow = attach_shadow(obj._io_manager, run, L)
        runner = OpRunner(run, scn, obj, True)
        run.results = [[] for _ in actors]
        run.pre = []
        run.post = []

        async def actor(i, ops):
            for op in ops:
                rec = await runner.ado(op)
                run.results[i].append(rec)
                if not rec['ok'] and cfg.get('stop_on_error'):
                    break

        async def main():
            for op in scn.get('pre', []):
                run.pre.append(await runner.ado(op))
            if len(actors) == 1:
                asyncio.current_task().sim_actor = 0
                await actor(0, actors[0])
            else:
                order = list(range(len(actors)))
                start = cfg.get('task_order')
                if start:
                    order = [i for i in start if i < len(actors)] + [i for i in order if i not in start]
                tasks = []
                for i in order:
                    t = loop.create_task(actor(i, actors[i]), name='actor%d' % i)
                    t.sim_actor = i
                    tasks.append(t)
                res = await asyncio.gather(*tasks, return_exceptions=True)
                for r in res:
                    if isinstance(r, BaseException) and not isinstance(r, Exception):
                        raise r
            for op in scn.get('post', []):
                run.post.append(await runner.ado(op))

        mt = loop.create_task(main(), name='main')
        mt.sim_actor = 0
        try:
            loop.run_until_complete(mt)
        except LoopDeadlock as e:
            run.abort = 'deadlock' if len(actors) > 1 else 'hang'
            run.abort_msg = 'event loop: nothing ready, nothing scheduled %s' % (e,)
            run.deadlock = {'kind': run.abort, 'tasks': sorted(t.get_name() for t in asyncio.all_tasks(loop) if not t.done())}
        except SimHang as e:
            run.abort = 'hang'
            run.abort_msg = str(e)
        except SimAbort as e:
            run.abort = 'step-cap'
            run.abort_msg = str(e)
        run.locks = _lock_states(obj)
        co = runner.files.pop('pending_coro', None)
        if co is not None:
            co.close()          # a coroutine the scenario created and never awaited: closed quietly
    finally:
        _unpatch(saved)
        L['hidden_helpers'].os = os
        _close_loop(loop)
    return _finish(run)
