"""Baton-passing scheduler for real Python threads: exactly one simulated thread runs at
any instant and every choice of who runs next is a draw from the `sched` tape.

Yield points: SimLock acquire/release, every simulated transport call, and (optionally)
every traced line / opcode of the library's own files (sys.settrace).
"""
import sys
import threading

from .transport import SimAbort, SimHang

RUNNABLE, BLOCKED, WAIT_IO, DONE, NEW = 'R', 'B', 'W', 'D', 'N'
_WARMED = set()


def warm_opcode_tracing(trace_files, names):
    """CPython 3.12 registers per-instruction events on a code object the first time a frame of
    it asks for f_trace_opcodes, and that first execution does not see them. Do that once,
    up front, so that the first deciding run of a process behaves like every later one."""
    import inspect
    todo = []
    for mod in list(sys.modules.values()):
        if getattr(mod, '__file__', None) in trace_files:
            for _, cls in inspect.getmembers(mod, inspect.isclass):
                for n in names:
                    fn = cls.__dict__.get(n)
                    if fn is not None and hasattr(fn, '__code__') and fn.__code__ not in _WARMED:
                        todo.append(fn)
    if not todo:
        return
    codes = set(fn.__code__ for fn in todo)

    def tracer(frame, event, arg):
        if frame.f_code in codes:
            frame.f_trace_opcodes = True

            def local(frame, event, arg):
                return local
            return local
        return None
    old = sys.gettrace()
    sys.settrace(tracer)
    try:
        for fn in todo:
            for _ in range(2):
                try:
                    fn(object())
                except BaseException:    # noqa
                    pass
            _WARMED.add(fn.__code__)
    finally:
        sys.settrace(old)


class HarnessError(Exception):
    pass


class SimThread(object):
    def __init__(self, idx, name, fn):
        self.idx = idx
        self.name = name
        self.fn = fn
        self.sem = threading.Semaphore(0)
        self.state = NEW
        self.wake_at = None
        self.waiting_for = None
        self.result = None
        self.exc = None
        self.aborted = False
        self.thread = None
        self.prio = 0
        self.switched_in_op = 0


class SimLock(object):
    """Cooperative replacement for threading.Lock, owned by the scheduler."""

    def __init__(self, sched, name='lock'):
        self.sched = sched
        self.name = name
        self.owner = None

    def acquire(self, blocking=True, timeout=-1):
        sched = self.sched
        th = sched.current() if sched is not None else None
        if th is None:
            if self.owner is not None:
                if not blocking:
                    return False
                # single-threaded: nobody can ever release it
                raise SimHang('lock %s is held and can never be released (self-deadlock)' % self.name)
            self.owner = 'main'
            return True
        sched.yield_point('acq:' + self.name)
        timed = blocking and timeout is not None and timeout >= 0
        while self.owner is not None:
            if not blocking or (timed and timeout == 0):
                return False
            if timed and sched.tape.draw('ltimeout', 4) == 3:
                # a bounded wait: the operating system may keep the owner off the CPU for longer than that (a legal schedule)
                sched.clock.advance(timeout)
                sched.probe('lock_wait_timed_out')
                return False
            th.state = BLOCKED
            th.waiting_for = self
            sched.probe('lock_contended')
            sched.dispatch(th)
        th.waiting_for = None
        self.owner = th
        return True

    def release(self):
        if self.owner is None:
            raise RuntimeError('release unlocked lock')
        self.owner = None
        sched = self.sched
        if sched is None:
            return
        for x in sched.threads:
            if x.state == BLOCKED and x.waiting_for is self:
                x.state = RUNNABLE
        if sched.current() is not None:
            sched.yield_point('rel:' + self.name)

    def locked(self):
        return self.owner is not None

    def __enter__(self):
        self.acquire()
        return self

    def __exit__(self, *a):
        self.release()
        return False


class SimRLock(SimLock):
    """Cooperative replacement for threading.RLock (re-entrant for its owner)."""

    def __init__(self, sched, name='rlock'):
        SimLock.__init__(self, sched, name)
        self.depth = 0

    def _me(self):
        sched = self.sched
        th = sched.current() if sched is not None else None
        return th if th is not None else 'main'

    def acquire(self, blocking=True, timeout=-1):
        if self.owner is not None and self.owner is self._me():
            self.depth += 1
            return True
        ok = SimLock.acquire(self, blocking, timeout)
        if ok:
            self.depth = 1
        return ok

    def release(self):
        if self.owner is None or self.owner is not self._me():
            raise RuntimeError('cannot release un-acquired lock')
        self.depth -= 1
        if self.depth == 0:
            SimLock.release(self)


class SimCondition(object):
    """Cooperative replacement for threading.Condition on a SimLock / SimRLock."""

    def __init__(self, lock=None):
        self.lock = lock if lock is not None else SimRLock(None, 'cond')
        self.waiters = []
        self.name = 'cond(%s)' % getattr(self.lock, 'name', '?')
        self.owner = None        # for deadlock reports

    def acquire(self, *a, **kw):
        return self.lock.acquire(*a, **kw)

    def release(self):
        return self.lock.release()

    def __enter__(self):
        self.lock.acquire()
        return self

    def __exit__(self, *a):
        self.lock.release()
        return False

    def wait(self, timeout=None):
        sched = self.lock.sched
        th = sched.current() if sched is not None else None
        if th is None:
            if timeout is None:
                raise SimHang('Condition.wait() without timeout in a single-threaded run can never return')
            return False
        th.cond_notified = False
        self.waiters.append(th)
        self.lock.release()
        if not th.cond_notified:
            if timeout is None:
                th.state = BLOCKED
                th.waiting_for = self
            else:
                th.state = WAIT_IO
                th.wake_at = sched.clock.now + max(0.0, timeout)
            sched.dispatch(th)
            th.wake_at = None
            th.waiting_for = None
        if th in self.waiters:
            self.waiters.remove(th)
        self.lock.acquire()
        return th.cond_notified

    def wait_for(self, predicate, timeout=None):
        r = predicate()
        while not r:
            if not self.wait(timeout):
                return predicate()
            r = predicate()
        return r

    def notify(self, n=1):
        for th in list(self.waiters)[:n]:
            self.waiters.remove(th)
            th.cond_notified = True
            if th.state in (BLOCKED, WAIT_IO):
                th.state = RUNNABLE

    def notify_all(self):
        self.notify(len(self.waiters))


class Sched(object):
    def __init__(self, tape, clock, cfg, log):
        self.tape = tape
        self.clock = clock
        self.cfg = cfg
        self.log = log
        self.threads = []
        self.cur = None
        self.active = False
        self.steps = 0
        self.step_cap = cfg.get('sched_step_cap', 300000)
        self.switches = []
        self.aborting = None
        self.deadlock = None
        self.done_evt = threading.Event()
        self.policy = cfg.get('sched', 'coarse')
        self.p_line = cfg.get('p_line', 0.02)
        self.trace_files = tuple(cfg.get('trace_files', ()))
        self.opcode_fns = set(cfg.get('opcode_fns', ()))
        self.probes = {}
        self.tls = threading.local()
        self.change_points = set()
        self.line_events = 0
        self.link = None
        self.in_alloc_switch = 0
        self.harness_exc = None
        self.state_fn = None
        self.states = set()

    def probe(self, k, n=1):
        self.probes[k] = self.probes.get(k, 0) + n

    # -- setup ---------------------------------------------------------------------------
    def spawn(self, fn, name=None):
        th = SimThread(len(self.threads), name or ('T%d' % len(self.threads)), fn)
        self.threads.append(th)
        return th

    def current(self):
        if not self.active:
            return None
        return getattr(self.tls, 'th', None)

    def actor(self):
        th = self.current()
        return th.idx if th is not None else 0

    def run(self, wall_timeout=60.0):
        n = len(self.threads)
        if self.policy == 'pct':
            order = list(range(n))
            # random priorities: a permutation from the tape
            prios = []
            pool = list(range(n))
            while pool:
                prios.append(pool.pop(self.tape.draw('sched', len(pool))))
            for th, p in zip(self.threads, prios):
                th.prio = n - p + 10
            d = self.cfg.get('pct_d', 2)
            k = self.cfg.get('pct_k', 2000)
            for _ in range(max(0, d - 1)):
                self.change_points.add(self.tape.draw('sched', k))
            del order
        if self.trace_files and self.opcode_fns:
            warm_opcode_tracing(self.trace_files, self.opcode_fns)
        for th in self.threads:
            th.state = RUNNABLE
            th.thread = threading.Thread(target=self._body, args=(th,), name='sim-' + th.name, daemon=True)
        self.active = True
        for th in self.threads:
            th.thread.start()
        first = self._choose([t for t in self.threads if t.state == RUNNABLE], None, 'start')
        self.cur = first
        first.sem.release()
        if not self.done_evt.wait(wall_timeout):
            self.active = False
            raise HarnessError('scheduler watchdog: baton lost (a real lock or a stuck thread); states=%s' % [(t.name, t.state) for t in self.threads])
        self.active = False
        for th in self.threads:
            th.thread.join(5.0)
        if self.harness_exc is not None:
            raise self.harness_exc

    def _body(self, th):
        th.sem.acquire()
        self.tls.th = th
        if self.trace_files:
            sys.settrace(self._tracer)
        try:
            if self.aborting:
                raise SimAbort(self.aborting)
            th.result = th.fn()
        except SimAbort:
            th.aborted = True
        except HarnessError as e:
            self.harness_exc = e
        except BaseException as e:   # noqa
            th.exc = e
        finally:
            sys.settrace(None)
            th.state = DONE
            try:
                self.dispatch(th)
            except SimAbort:
                pass

    # -- choosing ------------------------------------------------------------------------
    def _choose(self, runnable, th, site):
        """Pick who runs next among `runnable` (th = the caller, may or may not be in it)."""
        if len(runnable) == 1:
            return runnable[0]
        if self.policy == 'pct':
            return max(runnable, key=lambda x: x.prio)
        # put the caller first so that draw 0 == "keep running the same thread"
        if th is not None and th in runnable:
            runnable = [th] + [x for x in runnable if x is not th]
            w = [3.0] + [1.0] * (len(runnable) - 1)
        else:
            w = None
        return runnable[self.tape.draw('sched', len(runnable), weights=w)]

    def yield_point(self, site):
        th = self.current()
        if th is None:
            return
        if self.aborting:
            raise SimAbort(self.aborting)
        self.steps += 1
        if self.steps > self.step_cap:
            self._abort('step-cap')
            raise SimAbort('step-cap')
        if self.policy == 'pct' and self.steps in self.change_points:
            th.prio = -self.steps
            self.probe('pct_priority_change')
        runnable = [x for x in self.threads if x.state == RUNNABLE]
        if len(runnable) <= 1:
            return
        nxt = self._choose(runnable, th, site)
        if nxt is not th:
            self._switch(th, nxt, site)

    def _switch(self, th, nxt, site):
        self.switches.append((th.idx if th is not None else -1, nxt.idx, site))
        if self.state_fn is not None:
            self.states.add(self.state_fn())
        self.cur = nxt
        nxt.sem.release()
        if th is not None and th.state != DONE:
            th.sem.acquire()
            if self.aborting:
                raise SimAbort(self.aborting)

    def dispatch(self, th):
        """The caller cannot continue (blocked, waiting, done). Returns when it may run again."""
        while True:
            runnable = [x for x in self.threads if x.state == RUNNABLE]
            if runnable:
                nxt = self._choose(runnable, th, 'dispatch')
                break
            timed = [x for x in self.threads if x.state == WAIT_IO and x.wake_at is not None]
            if timed:
                t = min(x.wake_at for x in timed)
                self.clock.jump_to(t)
                for x in timed:
                    if x.wake_at <= self.clock.now:
                        x.state = RUNNABLE
                continue
            stuck = [x for x in self.threads if x.state in (BLOCKED, WAIT_IO)]
            if stuck:
                if self.aborting:
                    for x in stuck:
                        x.state = RUNNABLE
                    continue
                kind = 'deadlock' if any(x.state == BLOCKED for x in stuck) else 'hang'
                self.deadlock = {'kind': kind, 'threads': [(x.name, x.state, getattr(x.waiting_for, 'name', None),
                                                            getattr(getattr(x.waiting_for, 'owner', None), 'name', None)) for x in self.threads]}
                self._abort(kind)
                continue
            # everybody is done
            self.done_evt.set()
            return
        if nxt is th:
            if self.aborting and th.state != DONE:
                raise SimAbort(self.aborting)
            return
        self._switch(th, nxt, 'dispatch')

    def _abort(self, why):
        if self.aborting:
            return
        self.aborting = why
        for x in self.threads:
            if x.state in (BLOCKED, WAIT_IO):
                x.state = RUNNABLE

    # -- Waiter interface (used by Link) ------------------------------------------------------
    def wait_until(self, t, link):
        th = self.current()
        if th is None:
            if t is not None:
                self.clock.jump_to(t)
            return
        th.state = WAIT_IO
        th.wake_at = t
        self.dispatch(th)
        th.wake_at = None

    def can_be_woken(self, link):
        th = self.current()
        return any(x is not th and x.state != DONE for x in self.threads)

    def kick_io(self):
        for x in self.threads:
            if x.state == WAIT_IO:
                x.state = RUNNABLE

    # -- line / opcode pre-emption ------------------------------------------------------------
    def _tracer(self, frame, event, arg):
        co = frame.f_code
        if co.co_filename in self.trace_files:
            if co.co_name in self.opcode_fns:
                frame.f_trace_opcodes = True
            return self._local
        return None

    def _local(self, frame, event, arg):
        if event == 'line' or event == 'opcode':
            self.line_events += 1
            self.preempt(frame, event)
        return self._local

    def preempt(self, frame, event):
        th = self.current()
        if th is None or self.aborting:
            return
        pol = self.policy
        if pol == 'coarse':
            return
        self.steps += 1
        if self.steps > self.step_cap:
            self._abort('step-cap')
            raise SimAbort('step-cap')
        if pol == 'pct':
            if self.steps in self.change_points:
                th.prio = -self.steps
                self.probe('pct_priority_change')
                runnable = [x for x in self.threads if x.state == RUNNABLE]
                if len(runnable) > 1:
                    nxt = max(runnable, key=lambda x: x.prio)
                    if nxt is not th:
                        self._note_site(frame, event)
                        self._switch(th, nxt, 'line')
            return
        # dense: flip a coin at every line
        runnable = [x for x in self.threads if x.state == RUNNABLE]
        if len(runnable) <= 1:
            return
        p = self.p_line if event == 'line' else self.cfg.get('p_opcode', self.p_line)
        if not self.tape.chance('sched', p):
            return
        others = [x for x in runnable if x is not th]
        nxt = others[self.tape.draw('sched', len(others))]
        self._note_site(frame, event)
        self._switch(th, nxt, 'line')

    def _note_site(self, frame, event):
        self.probe('preempt_' + event)
        name = frame.f_code.co_name
        if name == '_open':
            self.probe('preempt_in__open')
            self.in_alloc_switch += 1
        elif name in ('read', 'put', 'get', 'find', 'find_allow_zeros', 'clear'):
            self.probe('preempt_in_io_or_store')
