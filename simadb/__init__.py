"""simadb: a deterministic simulator (device, wire, clock, scheduler) for adb_shell."""
