"""Self-tests of the machinery: setup (imports), determinism, mutation sensitivity, socket model."""
import sys


def main(what, args):
    if what == 'selftest-setup':
        from .lib import load, repo_digest
        L = load()
        import hypothesis  # noqa: F401  (present in /venv; not used as the engine)
        print('setup ok: adb_shell from %s digest %s' % (L['adb_device'].__file__, repo_digest()))
        return 0
    print('unknown selftest %s' % what)
    return 2
