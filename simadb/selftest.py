"""Self-tests of the machinery: setup (imports), determinism, mutation sensitivity, socket model."""
import concurrent.futures as cf
import json
import multiprocessing
import os
import shutil
import subprocess
import sys
import time

ROOT = os.path.dirname(os.path.dirname(os.path.abspath(__file__)))


def _props():
    out = []
    for i in range(1, 21):
        p = 'C%02d' % i
        if os.path.exists(os.path.join(ROOT, 'simadb', 'props', p + '.py')):
            out.append(p)
    return out


def _digests(pid, lo, hi, tier='quick'):
    from . import batch
    mod = batch.prop_module(pid)
    out = []
    for i in range(lo, hi):
        seed = batch.run_seed(0, pid, tier, i)
        o = mod.evaluate(mod.generate(seed, tier))
        out.append((i, o['digest'], tuple(sorted(v[0] for v in o['violations'])), tuple(sorted(k[0] for k in o.get('known', [])))))
    return out


def _digests_task(a):
    return _digests(*a)


def determinism(args):
    n = args.runs or 60
    props = _props()
    bad = 0
    t0 = time.time()
    for pid in props:
        a = _digests(pid, 0, n)
        b = _digests(pid, 0, n)
        # fresh interpreter, another hash seed, single worker
        env = dict(os.environ)
        env['PYTHONHASHSEED'] = '4242'
        code = 'import sys, json; sys.path.insert(0, %r); from simadb.lib import load; load(); from simadb import selftest; print(json.dumps(selftest._digests(%r, 0, %d)))' % (ROOT, pid, n)
        r = subprocess.run([sys.executable, '-c', code], capture_output=True, text=True, env=env, timeout=1800)
        if r.returncode != 0:
            print('HARNESS-ERROR determinism subprocess failed for %s: %s' % (pid, r.stderr[-800:]))
            return 2
        c = [tuple(x[:2]) + (tuple(x[2]), tuple(x[3])) for x in json.loads(r.stdout.strip().splitlines()[-1])]
        # 16 workers, reversed chunk order
        ctx = multiprocessing.get_context('fork')
        chunks = [(pid, lo, min(n, lo + 4)) for lo in range(0, n, 4)][::-1]
        with cf.ProcessPoolExecutor(max_workers=16, mp_context=ctx) as ex:
            d = sorted(x for part in ex.map(_digests_task, chunks) for x in part)
        diffs = [i for i in range(n) if not (a[i] == b[i] == c[i] == d[i])]
        print('%s: %d seeds x (2 in-process, fresh interpreter PYTHONHASHSEED=4242, 16 workers): %s' % (pid, n, 'identical' if not diffs else 'DIVERGED at runs %r' % diffs[:10]))
        bad += len(diffs)
    print('determinism self-test: %d properties, %d divergences, %.1fs' % (len(props), bad, time.time() - t0))
    if bad:
        print('HARNESS-ERROR nondeterministic simulator')
        return 2
    return 0


def mutants(args):
    from . import mutate
    muts = mutate.load_mutants()
    only = os.environ.get('VERIF_MUTANTS')
    if only:
        muts = [m for m in muts if any(m['id'].startswith(x) for x in only.split(','))]
    with_suite = bool(os.environ.get('VERIF_MUTANTS_SUITE'))
    missed = []
    rows = []

    def one(m):
        try:
            d = mutate.make_scratch(m, with_tests=with_suite)
        except ValueError as e:
            return (m['id'], m['property'], 'STALE', str(e))
        try:
            suite = None
            if with_suite:
                suite, _ = mutate.run_suite(d)
            pids = m.get('checks') or [m['property']]
            res = []
            for pid in pids:
                if not os.path.exists(os.path.join(ROOT, 'simadb', 'props', pid + '.py')):
                    res.append((pid, 'no-check'))
                    continue
                code, out = mutate.run_check(d, pid, ['--runs', str(m.get('runs', args.runs or 3000))])
                res.append((pid, {0: 'MISSED', 1: 'caught', 2: 'harness-error'}.get(code, str(code))))
            return (m['id'], m['property'], res, suite)
        finally:
            shutil.rmtree(d, True)

    with cf.ThreadPoolExecutor(max_workers=4) as ex:
        for row in ex.map(one, muts):
            rows.append(row)
            print(row)
    for r in rows:
        if r[2] == 'STALE' or not any(x[1] == 'caught' for x in r[2]):
            missed.append(r[0])
    print('mutation self-test: %d mutants, %d not caught: %s' % (len(rows), len(missed), missed))
    return 0


def main(what, args):
    if what == 'selftest-setup':
        from .lib import load, repo_digest
        L = load()
        import hypothesis  # noqa: F401  (present in /venv; not used as the engine)
        print('setup ok: adb_shell from %s digest %s' % (L['adb_device'].__file__, repo_digest()))
        return 0
    if what == 'selftest-determinism':
        return determinism(args)
    if what == 'selftest-mutants':
        return mutants(args)
    if what == 'selftest-seeded':
        return seeded(args)
    if what == 'selftest-sockmodel':
        from . import simsock
        return simsock.validate_against_kernel()
    print('unknown selftest %s' % what)
    return 2


def seeded(args):
    """Regression over seeded/*: every change recorded as CAUGHT by a check must still be caught."""
    from . import seedtest
    d = os.path.join(ROOT, 'seeded')
    only = os.environ.get('VERIF_SEEDED')
    rows = []
    bad = []

    def one(name):
        mp = os.path.join(d, name, 'meta.json')
        with open(mp) as f:
            m = json.load(f)
        want = [c for c, v in m.get('checks', {}).items() if v.startswith('CAUGHT')]
        try:
            sc = seedtest.scratch_with_patch(os.path.join(d, name, 'patch.diff'))
        except RuntimeError as e:
            return (name, 'PATCH-DOES-NOT-APPLY', str(e)[:100])
        try:
            res = []
            for pid in want:
                env = dict(os.environ, VERIF_REPO=sc)
                r = subprocess.run([os.path.join(ROOT, 'check'), pid, '--no-corpus'] + (['--runs', str(args.runs)] if args.runs else []), capture_output=True, text=True, env=env, timeout=3600)
                res.append((pid, {0: 'MISSED', 1: 'caught', 2: 'harness-error'}.get(r.returncode, '?')))
            return (name, res, None)
        finally:
            shutil.rmtree(sc, True)

    names = sorted(n for n in os.listdir(d) if os.path.exists(os.path.join(d, n, 'meta.json')))
    if only:
        names = [n for n in names if any(n.startswith(x) for x in only.split(','))]
    with cf.ThreadPoolExecutor(max_workers=3) as ex:
        for row in ex.map(one, names):
            rows.append(row)
            print(row)
            if isinstance(row[1], str) or any(v != 'caught' for _, v in row[1]):
                bad.append(row[0])
    print('seeded self-test: %d changes, %d not (fully) caught: %s' % (len(rows), len(bad), bad))
    return 0
