"""Scenario generation (swarm style): every run draws its own device world, link
configuration and operation sequence from one seeded generator. Scenarios are explicit
JSON-able dicts, so a replay file needs no generator and a shrinker can edit them."""
from .device import cut, expand, shell_payloads  # noqa: F401
from .tape import Gen

MAXDATAS = [4096, 4096, 4097, 8192, 16384, 65536, 65544, 131072, 262144, 1048576]
ALPHAS = ['utf8', 'badutf8', 'bin', 'ascii', 'zero', 'ff']
CUT_POLICIES = ['whole', 'record', 'random', 'tiny', 'straddle', 'one']
FRAGS = ['whole', 'mixed', 'uniform', 'boundary', 'one']


def pick_size(g, maxdata, big):
    md = min(maxdata, max(big, 64))
    c = g.int(0, 11)
    if c == 0:
        return 0
    if c == 1:
        return 1
    if c <= 4:
        return g.int(2, 64)
    if c <= 6:
        return g.int(65, 3000)
    if c == 7:
        return max(0, md + g.int(-2, 2))
    if c == 8:
        return g.int(md, 3 * md) if big > 5000 else g.int(100, 5000)
    if c == 9:
        return g.pick([65535, 65536, 65537, 2047, 2048, 2049, 4095, 4096, 4097]) if big >= 65537 else g.int(1, 300)
    return g.int(1, big if big > 1 else 1)


def gen_cuts(g, size, maxdata):
    """A list of payload sizes for a shell output of `size` bytes (0 = an empty WRTE)."""
    style = g.int(0, 6)
    if style == 0:
        return None if g.chance(0.5) else []
    out = []
    left = size
    n = 0
    while left > 0 and n < 40:
        if style == 1:
            k = g.int(1, 4)
        elif style == 2:
            k = g.int(1, max(1, min(left, maxdata)))
        elif style == 3:
            k = g.pick([1, 2, 3, maxdata, maxdata - 1, 7])
        else:
            k = g.int(1, max(1, left))
        k = min(k, maxdata)
        if g.chance(0.12):
            out.append(0)
        out.append(k)
        left -= k
        n += 1
    if g.chance(0.15):
        out.append(0)
    return out


def gen_device(g, big=20000, auth=False):
    maxdata = g.pick(MAXDATAS)
    if g.chance(0.1):
        maxdata = g.int(4096, 1048576)
    d = {
        'maxdata': maxdata,
        'close_mode': 'eager' if g.chance(0.2) else 'strict',
        'clse_zero': g.chance(0.15),
        'latency': {'mode': 'zero'} if g.chance(0.4) else {'mode': 'small', 'max': g.pick([0.001, 0.02, 0.2])},
        'rid_style': g.pick(['wide', 'wide', 'high']),
        'inflight_on_close': g.chance(0.5),
        'reply_before_okay': g.pick([0, 0, 0, 1, 2, 5]),
        'cmds': {}, 'fs': {}, 'dirs': {},
        'cut_plans': [{'policy': g.pick(CUT_POLICIES), 'seed': g.int(0, 1 << 30)} for _ in range(g.int(1, 3))],
    }
    if g.chance(0.25):
        d['stray'] = [[g.pick(['OKAY', 'CLSE', 'WRTE']), g.int(1, 1 << 32 - 1), g.int(1, 9)] for _ in range(g.int(1, 2))]
        for s in d['stray']:
            if s[0] == 'WRTE':
                s.append(g.bytes(g.int(1, 9)).hex())
    return d


def add_cmd(g, d, big, name=None, alpha=None):
    name = name or ('cmd%d %s' % (len(d['cmds']), g.pick(['ls', 'é', 'x y', '', '"q"'])))
    size = pick_size(g, d['maxdata'], big)
    spec = {'content': {'seed': g.int(0, 1 << 30), 'size': size, 'alpha': alpha or g.pick(ALPHAS, [4, 3, 3, 1, 1, 1])}}
    spec['cuts'] = gen_cuts(g, size, d['maxdata'])
    d['cmds'][name] = spec
    return name


def add_file(g, d, big, path=None):
    path = path or ('/sdcard/' + g.pick(['f', 'Ω', 'a b', 'x' * g.int(1, 40)]) + str(len(d['fs'])))
    size = pick_size(g, 65536, big)
    recs = []
    for _ in range(g.int(1, 4)):
        recs.append(g.pick([65536, 65536, 65535, 1, 2, 7, 8, 9, 100, 4096, g.int(1, 65536)]))
    minrec = size // 1500 + 1
    recs = [min(65536, max(r, minrec)) for r in recs]
    d['fs'][path] = {'mode': g.pick([0o100644, 0o100755, 0o100600, 0xFFFFFFFF, 0x80000000]), 'mtime': g.pick([0, 1, 1500000000, 0x7FFFFFFF, 0x80000000, 0xFFFFFFFF, g.int(0, 0xFFFFFFFF)]),
                  'content': {'seed': g.int(0, 1 << 30), 'size': size, 'alpha': g.pick(['bin', 'bin', 'zero', 'ascii', 'ff', 'ids'])}, 'records': recs}
    return path


def rand_u32(g):
    return g.pick([0, 1, 0x7FFFFFFF, 0x80000000, 0xFFFFFFFF, 0xFFFF, 0x10000, g.int(0, 0xFFFFFFFF), g.int(0, 0xFFFFFFFF)])


def add_dir(g, d, nmax=40, path=None):
    path = path or ('/data/dir%d' % len(d['dirs']))
    n = g.pick([0, 1, 2, 3, g.int(0, nmax), g.int(0, nmax)])
    ents = []
    for _ in range(n):
        ln = g.pick([1, 1, 2, 5, 12, 40, 255, g.int(1, 255)])
        style = g.int(0, 4)
        if style == 4:
            # names that begin like a sync record (a parser that peeks at the buffer must not mistake them for one)
            name = (g.pick([b'FAIL', b'DONE', b'DENT', b'DATA', b'OKAY', b'STAT', b'FAIL']) + g.pick([b'ED_TESTS.log', b'', b'\x04\x00\x00\x00oops', b'x' * max(0, ln - 4)]))[:255]
        elif style == 0:
            name = g.bytes(ln)
        elif style == 1:
            name = (g.pick(['file', 'ü', '文', 'a b']) * ln).encode()[:ln] or b'x'
        elif style == 2:
            name = (b'n' * (ln - 1)) + g.pick([b' ', b'\n', b'\x00', b'/', b'.'])
        else:
            name = b'n%d' % g.int(0, 99999)
        ents.append([name.hex(), rand_u32(g), rand_u32(g), rand_u32(g)])
    d['dirs'][path] = ents
    return path


def gen_config(g, total_bytes):
    """Link configuration with read fragmentation scaled to the traffic volume."""
    if total_bytes <= 4000:
        frag = g.pick(FRAGS, [1, 3, 3, 3, 3])
    elif total_bytes <= 120000:
        frag = g.pick(FRAGS[:4], [1, 3, 1, 3])
    else:
        frag = g.pick(['whole', 'boundary', 'mixed'], [2, 3, 1])
        if frag == 'mixed' and total_bytes > 600000:
            frag = 'boundary'
    cfg = {'frag': frag, 'p_empty': g.pick([0.0, 0.0, 0.03, 0.1]) if frag != 'whole' else 0.0, 'call_cost': g.pick([1e-6, 2e-6, 1e-5])}
    return cfg


def timeouts(g, op):
    c = g.int(0, 5)
    if c == 0:
        op['tt'] = g.pick([5.0, 9.0, 9.5])
    elif c == 1:
        op['rt'] = g.pick([10.0, 30.0, 60.0])
    elif c == 2:
        op['tt'] = 8.0
        op['rt'] = 20.0
    return op


def gen_ops(g, d, kinds, n, big):
    """n random operations over the world d (adds commands / files as needed)."""
    ops = []
    total = 0
    for _ in range(n):
        k = g.pick(kinds)
        if k in ('shell', 'exec_out', 'streaming_shell'):
            name = add_cmd(g, d, big) if (not d['cmds'] or g.chance(0.8)) else g.pick(sorted(d['cmds']))
            total += d['cmds'][name]['content']['size']
            op = {'op': k, 'cmd': name, 'decode': g.chance(0.5)}
        elif k == 'root':
            if '__root__' not in d['cmds']:
                d['cmds']['__root__'] = {'content': {'seed': 1, 'size': g.pick([0, 24]), 'alpha': 'ascii'}, 'cuts': None}
            op = {'op': 'root'}
        elif k == 'reboot':
            op = {'op': 'reboot', 'fastboot': g.chance(0.3)}
        elif k == 'list':
            p = add_dir(g, d) if (not d['dirs'] or g.chance(0.7)) else g.pick(sorted(d['dirs']))
            total += sum(20 + len(e[0]) // 2 for e in d['dirs'][p])
            op = {'op': 'list', 'path': p}
        elif k == 'stat':
            if g.chance(0.2):
                p = '/nonexistent/%d' % g.int(0, 99)
            else:
                p = add_file(g, d, 100) if (not d['fs'] or g.chance(0.5)) else g.pick(sorted(d['fs']))
            op = {'op': 'stat', 'path': p}
        elif k == 'pull':
            p = add_file(g, d, big)
            total += d['fs'][p]['content']['size']
            op = {'op': 'pull', 'path': p, 'dest': g.pick(['bytesio', 'bytesio', 'file']), 'cb': g.pick([None, None, 'count', 'raise'])}
        elif k == 'push':
            size = pick_size(g, d['maxdata'], big)
            total += size // 8
            op = {'op': 'push', 'src': g.pick(['bytesio', 'bytesio', 'file']), 'content': {'seed': g.int(0, 1 << 30), 'size': size, 'alpha': g.pick(['bin', 'ff', 'zero'])},
                  'path': '/data/local/tmp/' + g.pick(['p', 'ü', 'a,b', 'x' * g.int(1, 200)]) + str(g.int(0, 999)), 'mtime': g.pick([0, 1, 1234567890, 0xFFFFFFFF]),
                  'mode': g.pick([0o100644, 0o100777, 33272])}
        else:
            raise AssertionError(k)
        ops.append(timeouts(g, op))
    return ops, total


def sync_stream_size(d, path):
    """Bytes the device's sync service sends for a pull of `path`: the content plus one 8-byte header per DATA record."""
    f = d['fs'].get(path)
    if f is None:
        return 64
    size = f['content']['size']
    sizes = [max(1, min(r, 65536)) for r in (f.get('records') or [65536])]
    n = i = k = 0
    while i < size and n < 100000:
        i += sizes[k % len(sizes)]
        k += 1
        n += 1
    if f.get('empty_every'):
        n += n // f['empty_every'] + 1
    return size + 8 * n + 8


def session(seed, kinds, nmax=5, big=20000, api=None):
    """A single-actor, fault-free session scenario."""
    g = Gen(seed)
    d = gen_device(g, big)
    ops, total = gen_ops(g, d, kinds, g.int(1, nmax), big)
    cfg = gen_config(g, total)
    sync_bytes = sum(sync_stream_size(d, op['path']) for op in ops if op['op'] == 'pull' and op['path'] in d['fs'])
    sync_bytes += sum(sum(20 + len(e[0]) // 2 for e in d['dirs'].get(op['path'], [])) for op in ops if op['op'] == 'list')
    for plan in d['cut_plans']:
        if plan['policy'] == 'one' and sync_bytes > 3000:
            plan['policy'] = 'random'
        if plan['policy'] == 'tiny' and sync_bytes > 40000:
            plan['policy'] = 'straddle'
    scn = {'api': api or g.pick(['sync', 'async']), 'transport': 'mem', 'device': d, 'config': cfg,
           'actors': [[timeouts(g, {'op': 'connect'})] + ops], 'object': {'banner': g.pick(['simhost', 'h', 'höst'])}}
    if g.chance(0.3):
        scn['object']['default_tt'] = g.pick([9.0, 5.0, 20.0])
    return scn
