"""Virtual-time asyncio event loop: real BaseEventLoop scheduling (FIFO ready queue, timers),
a selector that never sees I/O and turns a wait into a clock jump, an inline executor."""
import asyncio


class LoopDeadlock(BaseException):
    """Nothing is ready and nothing is scheduled: every task waits for something that cannot happen."""


class _FakeSelector(object):
    def __init__(self, loop):
        self.loop = loop

    def select(self, timeout=None):
        if timeout is None:
            raise LoopDeadlock()
        if timeout > 0:
            self.loop.clock.advance(timeout)
        return []

    def close(self):
        pass


class SimEventLoop(asyncio.BaseEventLoop):
    def __init__(self, clock):
        super().__init__()
        self.clock = clock
        self._selector = _FakeSelector(self)
        self._clock_resolution = 1e-9
        self.conn_factory = None     # set by the TCP world: callable(protocol_factory, host, port) -> (transport, protocol)
        self.iterations = 0
        self.iter_cap = 5000000

    def time(self):
        return self.clock.now

    def _process_events(self, event_list):
        pass

    def _write_to_self(self):
        pass

    def _run_once(self):
        self.iterations += 1
        if self.iterations > self.iter_cap:
            raise LoopDeadlock('iteration cap')
        super()._run_once()

    def run_in_executor(self, executor, func, *args):
        fut = self.create_future()
        try:
            fut.set_result(func(*args))
        except Exception as e:      # noqa
            fut.set_exception(e)
        return fut

    async def create_connection(self, protocol_factory, host=None, port=None, **kw):
        if self.conn_factory is None:
            raise OSError('no simulated network attached')
        return await self.conn_factory(self, protocol_factory, host, port)

    async def shutdown_default_executor(self, timeout=None):
        return None


# A coroutine that loops on StreamReader.read() at end-of-stream never suspends (read() returns b'' at once), so neither the
# event loop nor any timer can run while it does. In a real process such a loop burns CPU and wall-clock time passes; here the
# virtual clock would stand still and a loop that is bounded by a deadline (as adb_shell's read loop is) would never end. The seam
# is the reader itself: a read() that returns b'' without the loop having run costs EOF_SPIN_COST virtual seconds, and a spin that
# has consumed more than EOF_SPIN_LIMIT virtual seconds without the event loop running once ends the run as a hang.
_orig_stream_read = asyncio.StreamReader.read
EOF_SPIN_COST = 0.01
EOF_SPIN_LIMIT = 3600.0


async def _guarded_stream_read(self, n=-1):
    loop = getattr(self, '_loop', None)
    if not isinstance(loop, SimEventLoop):
        return await _orig_stream_read(self, n)
    it = loop.iterations
    data = await _orig_stream_read(self, n)
    if data or loop.iterations != it:
        self._sim_spin = 0.0
        return data
    self._sim_spin = getattr(self, '_sim_spin', 0.0) + EOF_SPIN_COST
    loop.clock.advance(EOF_SPIN_COST)
    loop.eof_spins = getattr(loop, 'eof_spins', 0) + 1
    if self._sim_spin > EOF_SPIN_LIMIT:
        raise LoopDeadlock('StreamReader.read() returned end-of-stream for %.0f virtual seconds in a row without the event loop running once: a coroutine spins without ever waiting' % EOF_SPIN_LIMIT)
    return data


asyncio.StreamReader.read = _guarded_stream_read
