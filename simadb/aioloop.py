"""Virtual-time asyncio event loop: real BaseEventLoop scheduling (FIFO ready queue, timers),
a selector that never sees I/O and turns a wait into a clock jump, an inline executor."""
import asyncio


class LoopDeadlock(BaseException):
    """Nothing is ready and nothing is scheduled: every task waits for something that cannot happen."""


class _FakeSelector(object):
    def __init__(self, loop):
        self.loop = loop

    def select(self, timeout=None):
        if timeout is None:
            raise LoopDeadlock()
        if timeout > 0:
            self.loop.clock.advance(timeout)
        return []

    def close(self):
        pass


class SimEventLoop(asyncio.BaseEventLoop):
    def __init__(self, clock):
        super().__init__()
        self.clock = clock
        self._selector = _FakeSelector(self)
        self._clock_resolution = 1e-9
        self.conn_factory = None     # set by the TCP world: callable(protocol_factory, host, port) -> (transport, protocol)
        self.iterations = 0
        self.iter_cap = 5000000

    def time(self):
        return self.clock.now

    def _process_events(self, event_list):
        pass

    def _write_to_self(self):
        pass

    def _run_once(self):
        self.iterations += 1
        if self.iterations > self.iter_cap:
            raise LoopDeadlock('iteration cap')
        super()._run_once()

    def run_in_executor(self, executor, func, *args):
        fut = self.create_future()
        try:
            fut.set_result(func(*args))
        except Exception as e:      # noqa
            fut.set_exception(e)
        return fut

    async def create_connection(self, protocol_factory, host=None, port=None, **kw):
        if self.conn_factory is None:
            raise OSError('no simulated network attached')
        return await self.conn_factory(self, protocol_factory, host, port)

    async def shutdown_default_executor(self, timeout=None):
        return None
