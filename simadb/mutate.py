"""Source mutants for the sensitivity self-test: each is a list of exact-text edits applied
to a scratch copy of /repo (outside /repo and /verif, removed afterwards)."""
import json
import os
import shutil
import subprocess
import sys
import tempfile

ROOT = os.path.dirname(os.path.dirname(os.path.abspath(__file__)))
REPO = os.environ.get('VERIF_REPO', '/repo')


def load_mutants():
    with open(os.path.join(ROOT, 'mutants', 'mutants.json')) as f:
        return json.load(f)['mutants']


def make_scratch(mut, with_tests=False):
    d = tempfile.mkdtemp(prefix='simadb-mut-')
    shutil.copytree(os.path.join(REPO, 'adb_shell'), os.path.join(d, 'adb_shell'), ignore=shutil.ignore_patterns('__pycache__'))
    if with_tests:
        shutil.copytree(os.path.join(REPO, 'tests'), os.path.join(d, 'tests'), ignore=shutil.ignore_patterns('__pycache__'))
        for f in ('setup.py', 'README.rst'):
            if os.path.exists(os.path.join(REPO, f)):
                shutil.copy(os.path.join(REPO, f), d)
    for e in mut['edits']:
        p = os.path.join(d, e['file'])
        with open(p) as f:
            s = f.read()
        if s.count(e['old']) < 1:
            shutil.rmtree(d, True)
            raise ValueError('mutant %s: text not found in %s' % (mut['id'], e['file']))
        s = s.replace(e['old'], e['new'], 1)
        with open(p, 'w') as f:
            f.write(s)
    return d


def run_check(scratch, pid, extra=(), timeout=900):
    env = dict(os.environ)
    env['VERIF_REPO'] = scratch
    r = subprocess.run([os.path.join(ROOT, 'check'), pid, '--no-corpus'] + list(extra), capture_output=True, text=True, env=env, timeout=timeout)
    return r.returncode, r.stdout + r.stderr


def run_suite(scratch, timeout=900):
    env = dict(os.environ)
    env['PYTHONPATH'] = scratch
    r = subprocess.run([sys.executable, '-m', 'pytest', '-q', '-x', '-p', 'no:cacheprovider', '--timeout=600', 'tests'], cwd=scratch, capture_output=True, text=True, env=env, timeout=timeout)
    return r.returncode == 0, (r.stdout + r.stderr)[-600:]


if __name__ == '__main__':
    # usage: python -m simadb.mutate <mutant-id> <property> [check args...]
    muts = {m['id']: m for m in load_mutants()}
    m = muts.get(sys.argv[1]) or [v for k, v in muts.items() if k.startswith(sys.argv[1])][0]
    d = make_scratch(m)
    try:
        code, out = run_check(d, sys.argv[2], sys.argv[3:])
        print(out[-3000:])
        print('exit', code)
    finally:
        shutil.rmtree(d, True)
