"""One-off generator of the fixture key pairs (run once; outputs are committed).

Independent of adb_shell.auth.keygen: the Android RSAPublicKey blob is encoded here from
the mincrypt struct definition (len, n0inv, n[64], rr[64], exponent; little-endian words).
"""
import base64
import os
import struct
import sys

from cryptography.hazmat.primitives import serialization
from cryptography.hazmat.primitives.asymmetric import rsa


def android_blob(n, e):
    n0inv = (-pow(n, -1, 1 << 32)) & 0xFFFFFFFF
    rr = pow(1 << 2048, 2, n)
    raw = struct.pack('<II', 64, n0inv) + n.to_bytes(256, 'little') + rr.to_bytes(256, 'little') + struct.pack('<I', e)
    return base64.b64encode(raw)


def main(outdir, count=4):
    os.makedirs(outdir, exist_ok=True)
    for i in range(count):
        key = rsa.generate_private_key(public_exponent=65537, key_size=2048)
        pem = key.private_bytes(serialization.Encoding.PEM, serialization.PrivateFormat.PKCS8, serialization.NoEncryption())
        nums = key.public_key().public_numbers()
        with open(os.path.join(outdir, 'key%d' % i), 'wb') as f:
            f.write(pem)
        with open(os.path.join(outdir, 'key%d.pub' % i), 'wb') as f:
            f.write(android_blob(nums.n, nums.e) + b' sim@verif')
        with open(os.path.join(outdir, 'key%d.numbers' % i), 'w') as f:
            f.write('%x\n%x\n' % (nums.n, nums.e))


if __name__ == '__main__':
    main(sys.argv[1])
