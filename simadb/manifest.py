"""Writes MANIFEST.json from the property modules that exist (kept valid at every commit)."""
import importlib
import json
import os

ROOT = os.path.dirname(os.path.dirname(os.path.abspath(__file__)))
ALL = ['C%02d' % i for i in range(1, 21)]
NA = {
    'C17': 'pure function of its inputs (key, token): no schedule, clock, fault, peer or interleaving it could depend on, so deterministic simulation has nothing to decide (DESIGN.md section 9); the C05 device model does verify every handshake signature and decode the offered public key on the way',
}
BASELINE = 'cd /repo && /venv/bin/python -m pytest -ra -q -p no:cacheprovider --timeout=900 --continue-on-collection-errors'


def main():
    checks = []
    na = []
    for pid in ALL:
        if pid in NA:
            na.append({'property_id': pid, 'reason': NA[pid]})
            continue
        try:
            mod = importlib.import_module('simadb.props.' + pid)
        except ImportError:
            na.append({'property_id': pid, 'reason': 'check not yet built in this commit (claimed in DESIGN.md; work in progress)'})
            continue
        checks.append({
            'property_id': pid,
            'quick_cmd': './check %s --tier quick' % pid,
            'thorough_cmd': './check %s --tier thorough' % pid,
            'evidence_file': 'evidence/%s.json' % pid,
            'replay_cmd_template': './check %s --replay {path}' % pid,
            'engine': 'simadb',
            'level_claimed': {'category': mod.LEVEL, 'text': getattr(mod, 'LEVEL_TEXT', mod.__doc__ or ''), 'design_ref': 'DESIGN.md section 7 (%s)' % pid},
            'level_note': getattr(mod, 'LEVEL_NOTE', 'trusted base: the simulator (device model, wire, clock, scheduler) written for this task; samples, does not enumerate'),
            'technique': getattr(mod, 'TECHNIQUE', 'deterministic simulation with fault injection (seeded search over schedules, device behaviours and fault sequences)'),
        })
    man = {
        'version': 1,
        'setup_cmd': './check selftest-setup',
        'hooks': {'guard': 'ADB_SHELL_VERIF (reserved; no source hooks were needed)', 'enable': 'none needed: all seams are reached by injection or module-attribute substitution from /verif',
                  'baseline_off_cmd': BASELINE, 'source_commits': [], 'add_only': True},
        'engines': [{'name': 'simadb', 'path': 'simadb/', 'serves_properties': [c['property_id'] for c in checks],
                     'kind_free_text': 'deterministic simulator for adb_shell: choice tape, virtual clock, adbd model, fragmenting/faulting wire, baton thread scheduler, virtual-time asyncio loop, simulated socket and fake usb1'}],
        'checks': checks,
        'not_applicable': na,
        'notes': 'exit codes: 0 held, 1 VIOLATION, 2 HARNESS-ERROR. VERIF_SEED selects the set of runs; VERIF_RUNS_SCALE scales tier sizes; VERIF_REPO points the checks at another tree (mutants).',
    }
    with open(os.path.join(ROOT, 'MANIFEST.json'), 'w') as f:
        json.dump(man, f, indent=1)
    return man


if __name__ == '__main__':
    m = main()
    print('claimed', [c['property_id'] for c in m['checks']])
