"""Writes MANIFEST.json from the property modules that exist (kept valid at every commit)."""
import importlib
import json
import os

ROOT = os.path.dirname(os.path.dirname(os.path.abspath(__file__)))
ALL = ['C%02d' % i for i in range(1, 21)]
NA = {
    'C17': 'pure function of its inputs (key, token): no schedule, clock, fault, peer or interleaving it could depend on, so deterministic simulation has nothing to decide (DESIGN.md section 9); the C05 device model does verify every handshake signature and decode the offered public key on the way',
}
TEXT = {
 'C01': 'seeded exploration of device output chunkings x read fragmentations x decode modes x sync/async against the real library; results compared with the device model\'s ground truth. Sampling, not proof: right level because the input space (byte strings x partitions x fragmentations) is unbounded and the failure modes are boundary arithmetic.',
 'C02': 'every byte the host writes in any simulated session is parsed by an independent decoder on the peer side; dedicated sessions push ids, sizes and checksums to their 32-bit / 1 MiB extremes. Exploration; the pure pack/unpack clause is only exercised at the values sessions produce.',
 'C03': 'differential exploration: each session with whole-buffer and with fragmented delivery (results, host packets, over-read monitor), plus single byte/bit/command-word corruption at a seeded packet with the documented exception demanded.',
 'C04': 'device-side protocol monitor (one state machine per local id, aware of which device packets the host has read) over seeded sessions of all stream operations against a stop-and-wait adbd model.',
 'C05': 'seeded handshake histories against an adbd auth model that verifies each signature as adbd does (pure-integer RSASSA-PKCS1-v1_5 / SHA-1 check) and a reference model of the state machine; all three shipped signers are real.',
 'C06': 'seeded search over thread schedules (baton-passed real threads, lock/IO yield points, line-level pre-emption, PCT and dense policies) and asyncio task interleavings, combined with the device adversary\'s packet ordering; K1 is classified by exact signature as a known finding, anything else is a violation.',
 'C07': 'seeded pushes (file / BytesIO / real directory with decoys in another cwd) x maxdata x exact-fit sizes x callbacks; the device\'s sync service decodes what arrives; differential with/without callback.',
 'C08': 'seeded pulls x DATA record sizes x WRTE cut policies (incl. inside sync headers) x fragmentations x destinations x callbacks; differential with/without callback; stream-closure and one-RECV checks.',
 'C09': 'seeded list/stat replies with 32-bit extreme fields, arbitrary name bytes and every packetisation; compared with the device filesystem.',
 'C10': 'seeded device-side failures at every point of pull and push with both FAIL/OKAY orderings and delayed FAILs, reasons incl. empty and non-UTF-8, invalid status records.',
 'C11': 'fault enumeration: operation x await point (packet index of the probe run) x stall kind x timeout grid on the virtual clock; oracle = timeout-type error within a bound derived from the loop structure, plus effective-timeout ordering on every transport call.',
 'C12': 'fault enumeration: two (thorough: four) fixed scenarios x every transport call index x every fault kind, sync and async, plus seeded scenarios and fault pairs; after the failure: lock states, close(), connect() to a healthy session, full replay compared with ground truth.',
 'C13': 'seeded sequences (<= 6 steps) over connect-ok / five connect-failure kinds / close / every operation against a two-state model; not-connected operations must not touch the transport or the filesystem.',
 'C14': 'seeded schedules with opcode-level pre-emption inside id allocation (threads), task interleavings and sequential wrap-around with the counter preset near 0 and 2^32; oracle on the OPEN packets seen by the device.',
 'C15': 'differential: unlimited vs seeded per-call write capacity (incl. 0 and a stuck transport), in memory and through the real TCP transports on a simulated kernel socket / asyncio transport with small buffers and a slow reader.',
 'C16': 'differential: every single-actor scenario family (incl. stalls, transport faults with recovery, corruption, short writes, handshakes, TCP) through AdbDevice and AdbDeviceAsync from the same seed; packets, results, exception types and transport call sequences must coincide.',
 'C18': 'the real TcpTransport / TcpTransportAsync (real asyncio streams, async_timeout) on a model of the kernel endpoint: seeded transport scripts against a raw peer and whole sessions compared with the in-memory transport.',
 'C19': 'model-based: seeded store operation histories against an executable reference model (any matching pair accepted for wildcard lookups, put(CLSE) on a missing pair unspecified), a complete sweep of short histories on the small domains, and the same shadow model inside every concurrent simulation.',
 'C20': 'fault enumeration on a fake usb1: two fixed sessions x every backend call index x six libusb errors, seeded sessions and transport scripts; endpoint / interface / length / millisecond-timeout checks on every backend call.',
}
NOTE = {
 'C18': 'the kernel endpoint and asyncio.Transport are models (validated against the loopback stack by ./check selftest-sockmodel, outside the registered checks); the transports, asyncio streams and async_timeout are real',
 'C20': 'libusb is a fake module implementing its documented contract; UsbTransport/AdbDeviceUsb are real',
 'C06': 'pre-emption at line granularity inside adb_shell files (opcode granularity in _open for C14); asyncio interleavings are those FIFO scheduling allows; known finding K1 is matched by signature only',
}
BASELINE = 'cd /repo && /venv/bin/python -m pytest -ra -q -p no:cacheprovider --timeout=900 --continue-on-collection-errors'


def main():
    checks = []
    na = []
    for pid in ALL:
        if pid in NA:
            na.append({'property_id': pid, 'reason': NA[pid]})
            continue
        try:
            mod = importlib.import_module('simadb.props.' + pid)
        except ImportError:
            na.append({'property_id': pid, 'reason': 'check not yet built in this commit (claimed in DESIGN.md; work in progress)'})
            continue
        checks.append({
            'property_id': pid,
            'quick_cmd': './check %s --tier quick' % pid,
            'thorough_cmd': './check %s --tier thorough' % pid,
            'evidence_file': 'evidence/%s.json' % pid,
            'replay_cmd_template': './check %s --replay {path}' % pid,
            'engine': 'simadb',
            'level_claimed': {'category': mod.LEVEL, 'text': TEXT.get(pid, mod.__doc__ or ''), 'design_ref': 'DESIGN.md sections 7 (%s) and 13' % pid},
            'level_note': NOTE.get(pid, 'trusted base: the simulator written for this task (adbd model, wire, virtual clock, schedulers) and its independent codec; the search samples seeds, it does not enumerate; determinism is self-tested (./check selftest-determinism)'),
            'technique': getattr(mod, 'TECHNIQUE', 'deterministic simulation with fault injection (seeded search over schedules, device behaviours and fault sequences)'),
        })
    man = {
        'version': 1,
        'setup_cmd': './check selftest-setup',
        'hooks': {'guard': 'ADB_SHELL_VERIF (reserved; no source hooks were needed)', 'enable': 'none needed: all seams are reached by injection or module-attribute substitution from /verif',
                  'baseline_off_cmd': BASELINE, 'source_commits': [], 'add_only': True},
        'engines': [{'name': 'simadb', 'path': 'simadb/', 'serves_properties': [c['property_id'] for c in checks],
                     'kind_free_text': 'deterministic simulator for adb_shell: choice tape, virtual clock, adbd model, fragmenting/faulting wire, baton thread scheduler, virtual-time asyncio loop, simulated socket and fake usb1'}],
        'checks': checks,
        'not_applicable': na,
        'notes': 'exit codes: 0 held, 1 VIOLATION, 2 HARNESS-ERROR. VERIF_SEED selects the set of runs; VERIF_RUNS_SCALE scales tier sizes; VERIF_REPO points the checks at another tree (mutants).',
    }
    with open(os.path.join(ROOT, 'MANIFEST.json'), 'w') as f:
        json.dump(man, f, indent=1)
    return man


if __name__ == '__main__':
    m = main()
    print('claimed', [c['property_id'] for c in m['checks']])
