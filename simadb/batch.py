"""Batches of simulated runs on all cores, evidence writer, replay and minimiser.

A property module (simadb/props/Cxx.py) provides
    ID, LEVEL, RULE, TIERS {'quick': n, 'thorough': n}, ASSUMPTIONS, STUBS (optional)
    generate(seed, tier)            -> case (JSON-able dict, has 'seed')
    evaluate(case, tapes=None)      -> Outcome dict (see _blank_outcome)
    shrink(case)                    -> iterable of smaller cases (optional)
    prelude(tier)                   -> optional deterministic prelude: list of Outcome-like dicts
"""
import concurrent.futures as cf
import faulthandler
import importlib
import json
import multiprocessing
import os
import subprocess
import sys
import time
import traceback

from .lib import REPO, repo_digest
from .tape import h64

ROOT = os.path.dirname(os.path.dirname(os.path.abspath(__file__)))
WORKERS = int(os.environ.get('VERIF_WORKERS', '16'))

REAL_VS_STUB = {
    'real': ['adb_shell.adb_device', 'adb_shell.adb_device_async', 'adb_shell.adb_message', 'adb_shell.hidden_helpers',
             'adb_shell.constants', 'adb_shell.exceptions', 'asyncio.Lock/Queue/tasks (on a virtual-time loop)', 'aiofiles (inline executor)'],
    'stub': ['adbd (simadb.device)', 'wire + transport (simadb.transport)', 'clock (simadb.clock)', 'thread scheduler + threading.Lock (simadb.threads)',
             'asyncio selector/executor (simadb.aioloop)'],
}


def prop_module(pid):
    return importlib.import_module('simadb.props.' + pid)


def run_seed(base, pid, tier, i):
    return h64(base, pid, tier, i)


def load_known():
    p = os.path.join(ROOT, 'known_findings.json')
    if not os.path.exists(p):
        return {'open': [], 'fixed': []}
    with open(p) as f:
        return json.load(f)


def open_finding_ids(pid):
    return set(k['id'] for k in load_known().get('open', []) if k.get('property') == pid)


# ----------------------------------------------------------------------------------------
def _work(args):
    pid, tier, base, start, stop, chunk_timeout = args
    faulthandler.dump_traceback_later(chunk_timeout, exit=True)
    mod = prop_module(pid)
    agg = {'n': 0, 'viol': [], 'known': {}, 'probes': {}, 'digests': set(), 'inter': set(), 'states': set(), 'sim_s': 0.0,
           'samples': [], 'nontrivial': 0, 'harness': [], 'execs': 0}
    for i in range(start, stop):
        seed = run_seed(base, pid, tier, i)
        try:
            case = mod.case_at(i, seed, tier) if hasattr(mod, 'case_at') else mod.generate(seed, tier)
            out = mod.evaluate(case)
        except Exception:     # noqa
            agg['harness'].append((i, traceback.format_exc()[-1500:]))
            if len(agg['harness']) > 3:
                break
            continue
        agg['n'] += 1
        agg['execs'] += out.get('execs', 1)
        for v in out['violations']:
            if len(agg['viol']) < 50:
                agg['viol'].append((i, v[0], v[1]))
        for k in out.get('known', []):
            e = agg['known'].setdefault(k[0], [0, k[1], i])
            e[0] += 1
        for k, v in out.get('probes', {}).items():
            agg['probes'][k] = agg['probes'].get(k, 0) + v
        agg['sim_s'] += out.get('sim_s', 0.0)
        if out.get('nontrivial'):
            agg['nontrivial'] += 1
            agg['digests'].add(out['digest'])
        for x in out.get('inter', ()) or ():
            agg['inter'].add(x)
        for x in out.get('states', ()) or ():
            agg['states'].add(x)
        if len(agg['samples']) < 2 and out.get('sample') is not None and (out.get('nontrivial') or i == start):
            agg['samples'].append(out['sample'])
    faulthandler.cancel_dump_traceback_later()
    return agg


def run_batch(pid, tier, base_seed, nruns, wall_cap):
    t0 = time.time()
    chunk = max(10, min(500, nruns // (WORKERS * 6) or 10))
    tasks = []
    for s in range(0, nruns, chunk):
        tasks.append((pid, tier, base_seed, s, min(nruns, s + chunk), max(120, int(wall_cap))))
    total = {'n': 0, 'viol': [], 'known': {}, 'probes': {}, 'digests': set(), 'inter': set(), 'states': set(), 'sim_s': 0.0,
             'samples': [], 'nontrivial': 0, 'harness': [], 'execs': 0, 'capped': False, 'planned': nruns}
    ctx = multiprocessing.get_context('fork')
    with cf.ProcessPoolExecutor(max_workers=min(WORKERS, max(1, len(tasks))), mp_context=ctx) as ex:
        futs = [ex.submit(_work, t) for t in tasks]
        try:
            for f in cf.as_completed(futs, timeout=wall_cap):
                a = f.result()
                total['n'] += a['n']
                total['execs'] += a['execs']
                total['viol'] += a['viol']
                for k, v in a['known'].items():
                    e = total['known'].setdefault(k, [0, v[1], v[2]])
                    e[0] += v[0]
                for k, v in a['probes'].items():
                    total['probes'][k] = total['probes'].get(k, 0) + v
                total['digests'] |= a['digests']
                total['inter'] |= a['inter']
                total['states'] |= a['states']
                total['sim_s'] += a['sim_s']
                total['nontrivial'] += a['nontrivial']
                total['harness'] += a['harness']
                if len(total['samples']) < 4:
                    total['samples'] += a['samples'][:1]
        except cf.TimeoutError:
            total['capped'] = True
            for f in futs:
                f.cancel()
            procs = list((getattr(ex, '_processes', None) or {}).values())
            ex.shutdown(wait=False, cancel_futures=True)
            for p in procs:
                try:
                    p.terminate()
                except Exception:   # noqa
                    pass
    total['wall'] = time.time() - t0
    return total


# ----------------------------------------------------------------------------------------
def generic_shrinks(case):
    """Structural simplifications of the scenario(s) inside a case."""
    import copy

    def scn_variants(scn):
        # drop operations (never the first connect of actor 0)
        for ai, ops in enumerate(scn.get('actors', [])):
            for oi in range(len(ops) - 1, -1, -1):
                if ops[oi]['op'] == 'connect' and oi == 0:
                    continue
                s = copy.deepcopy(scn)
                del s['actors'][ai][oi]
                if not s['actors'][ai] and len(s['actors']) > 1:
                    del s['actors'][ai]
                yield s
        for key in ('pre', 'post'):
            for oi in range(len(scn.get(key, [])) - 1, -1, -1):
                if scn[key][oi]['op'] == 'connect':
                    continue
                s = copy.deepcopy(scn)
                del s[key][oi]
                yield s
        cfg = scn.get('config', {})
        for k, v in (('frag', 'whole'), ('p_empty', 0.0), ('ayield', 0.0), ('short', None), ('sched', 'coarse')):
            if cfg.get(k, v) != v:
                s = copy.deepcopy(scn)
                s['config'][k] = v
                yield s
        if cfg.get('faults'):
            for i in range(len(cfg['faults'])):
                s = copy.deepcopy(scn)
                del s['config']['faults'][i]
                yield s
        d = scn['device']
        for k, v in (('close_mode', 'strict'), ('clse_zero', False), ('latency', {'mode': 'zero'}), ('stray', []), ('cut_plans', [{'policy': 'whole'}]), ('rid_style', 'wide')):
            if d.get(k, v) != v:
                s = copy.deepcopy(scn)
                s['device'][k] = v
                yield s
        # shrink contents
        for name, c in d.get('cmds', {}).items():
            if c['content'].get('size', 0) > 1:
                s = copy.deepcopy(scn)
                s['device']['cmds'][name]['content']['size'] //= 2
                yield s
            if c.get('cuts'):
                s = copy.deepcopy(scn)
                s['device']['cmds'][name]['cuts'] = c['cuts'][:len(c['cuts']) // 2]
                yield s
        for name, f in d.get('fs', {}).items():
            if f.get('content', {}).get('size', 0) > 1:
                s = copy.deepcopy(scn)
                s['device']['fs'][name]['content']['size'] //= 2
                yield s
        for name, ents in d.get('dirs', {}).items():
            if len(ents) > 0:
                s = copy.deepcopy(scn)
                s['device']['dirs'][name] = ents[:len(ents) // 2]
                yield s
        for ai, ops in enumerate(scn.get('actors', [])):
            for oi, op in enumerate(ops):
                if op.get('content', {}).get('size', 0) > 1:
                    s = copy.deepcopy(scn)
                    s['actors'][ai][oi]['content']['size'] //= 2
                    yield s
                if op['op'] == 'push' and len(op.get('path', '')) > 24:
                    s = copy.deepcopy(scn)
                    s['actors'][ai][oi]['path'] = '/data/local/tmp/p%d' % oi
                    yield s
                for k in ('tt', 'rt', 'cb'):
                    if k in op and op['op'] != 'connect':
                        s = copy.deepcopy(scn)
                        del s['actors'][ai][oi][k]
                        yield s
    for key in ('scn', 'scn2'):
        if key in case and isinstance(case[key], dict) and 'device' in case[key]:
            for s in scn_variants(case[key]):
                c = copy.deepcopy(case)
                c[key] = s
                yield c


def _fails_same(mod, case, tapes, tag):
    try:
        out = mod.evaluate(case, tapes)
    except Exception:     # noqa
        return None
    for v in out['violations']:
        if v[0] == tag:
            return out
    return None


def minimise(mod, case, tag, budget_s=20.0):
    """Shrink the case, then the tapes, keeping the same violation tag."""
    t0 = time.time()
    steps = 0
    best = case
    improved = True
    shrink = getattr(mod, 'shrink', None)
    while improved and time.time() - t0 < budget_s:
        improved = False
        cands = list(shrink(best)) if shrink else []
        cands += list(generic_shrinks(best))
        for c in cands:
            if time.time() - t0 > budget_s:
                break
            if _fails_same(mod, c, None, tag):
                best = c
                steps += 1
                improved = True
                break
    out = mod.evaluate(best)
    tapes = out.get('tapes')
    # tape shrink: prefer all-zero (benign) decisions
    if tapes:
        def try_t(t):
            return _fails_same(mod, best, t, tag) is not None
        zero = [{k: [] for k in t} for t in tapes]
        if try_t(zero):
            tapes = zero
        else:
            for ei in range(len(tapes)):
                for label in sorted(tapes[ei]):
                    if time.time() - t0 > budget_s * 1.5:
                        break
                    orig = tapes[ei][label]
                    if not any(orig):
                        continue
                    trial = [dict(t) for t in tapes]
                    trial[ei][label] = []
                    if try_t(trial):
                        tapes = trial
                        continue
                    # truncate the tail by halves
                    n = len(orig)
                    while n > 0 and time.time() - t0 < budget_s * 1.5:
                        n //= 2
                        trial = [dict(t) for t in tapes]
                        trial[ei][label] = orig[:n]
                        if try_t(trial):
                            tapes = trial
                            orig = orig[:n]
                        else:
                            break
    return best, tapes, steps


def write_replay(pid, case, tapes, tag, msg, out):
    d = os.path.join(ROOT, 'replays')
    os.makedirs(d, exist_ok=True)
    path = os.path.join(d, '%s-%s-%016x.json' % (pid, tag, case.get('seed', 0)))
    with open(path, 'w') as f:
        json.dump({'property': pid, 'oracle_tag': tag, 'message': msg, 'repo_digest': repo_digest(), 'case': case, 'tapes': tapes,
                   'event_log_digest': out.get('digest')}, f, indent=1, sort_keys=True)
    return path


def replay_file(pid, path):
    """Re-run a replay file. Returns (exit_code, text)."""
    with open(path) as f:
        rp = json.load(f)
    mod = prop_module(rp.get('property', pid))
    out = mod.evaluate(rp['case'], rp.get('tapes'))
    tags = [v[0] for v in out['violations']]
    lines = []
    want = rp.get('oracle_tag')
    for v in out['violations']:
        lines.append('  %s: %s' % (v[0], v[1]))
    for k in out.get('known', []):
        lines.append('  known-finding %s: %s' % (k[0], k[1]))
    lines.append('  event_log_digest=%s (file: %s)' % (out.get('digest'), rp.get('event_log_digest')))
    if want in tags or (want is None and tags):
        return 1, '\n'.join(['VIOLATION property=%s replay=%s' % (rp.get('property', pid), path)] + lines)
    if tags:
        return 1, '\n'.join(['VIOLATION property=%s replay=%s' % (rp.get('property', pid), path), '  (tag differs from the recorded %s)' % want] + lines)
    return 0, '\n'.join(['replay %s: property held (recorded tag %s not reproduced)' % (path, want)] + lines)


def confirm_in_fresh_process(pid, path):
    env = dict(os.environ)
    env['PYTHONHASHSEED'] = '1'
    r = subprocess.run([os.path.join(ROOT, 'check'), pid, '--replay', path], capture_output=True, text=True, env=env, timeout=300)
    return r.returncode == 1 and 'VIOLATION' in r.stdout, r.stdout[-2000:] + r.stderr[-2000:]


# ----------------------------------------------------------------------------------------
def check(pid, tier='quick', base_seed=0, runs=None, wall_cap=None, corpus=True, out=sys.stdout):
    mod = prop_module(pid)
    scale = float(os.environ.get('VERIF_RUNS_SCALE', '1'))
    n = runs if runs is not None else max(1, int(mod.TIERS[tier] * scale))
    wall_cap = wall_cap or (getattr(mod, 'WALL', {}).get(tier) or (240 if tier == 'quick' else 3600))
    t0 = time.time()
    exit_code = 0
    print('check %s tier=%s seed=%d runs=%d repo=%s digest=%s' % (pid, tier, base_seed, n, REPO, repo_digest()), file=out)
    viol_lines = []
    known_lines = {}
    open_ids = open_finding_ids(pid)
    corpus_n = 0
    # 1. committed corpus: replays that must keep passing (fixed findings) or keep being classified (open findings)
    cdir = os.path.join(ROOT, 'corpus', pid)
    if corpus and os.path.isdir(cdir):
        for fn in sorted(os.listdir(cdir)):
            if not fn.endswith('.json'):
                continue
            corpus_n += 1
            with open(os.path.join(cdir, fn)) as f:
                rp = json.load(f)
            o = mod.evaluate(rp['case'], rp.get('tapes'))
            for v in o['violations']:
                viol_lines.append((os.path.join(cdir, fn), v[0], v[1]))
            for k in o.get('known', []):
                if k[0] in open_ids:
                    e = known_lines.setdefault(k[0], [0, k[1]])
                    e[0] += 1
                else:
                    viol_lines.append((os.path.join(cdir, fn), 'unlisted-' + k[0], k[1]))
    # 2. optional deterministic prelude
    prelude = getattr(mod, 'prelude', None)
    pre = None
    if prelude:
        pre = prelude(tier)
        for v in pre.get('violations', []):
            p = write_replay(pid, v[2] if len(v) > 2 else {'seed': 0}, None, v[0], v[1], {})
            viol_lines.append((p, v[0], v[1]))
    # 3. the seeded batch
    tot = run_batch(pid, tier, base_seed, n, wall_cap)
    if tot['harness']:
        for (i, tb) in tot['harness'][:3]:
            print('HARNESS-ERROR property=%s run=%d\n%s' % (pid, i, tb), file=out)
        exit_code = 2
    # known findings
    for kid, (cnt, msg, i) in sorted(tot['known'].items()):
        if kid in open_ids:
            e = known_lines.setdefault(kid, [0, msg])
            e[0] += cnt
        else:
            tot['viol'].append((i, 'unlisted-' + kid, msg))
    # violations: regenerate, minimise, write replay, confirm
    seen_tags = set()
    unreproducible = []
    for (i, tag, msg) in sorted(tot['viol']):
        if tag in seen_tags or len(seen_tags) >= 6:
            continue
        seen_tags.add(tag)
        seed = run_seed(base_seed, pid, tier, i)
        case = mod.case_at(i, seed, tier) if hasattr(mod, 'case_at') else mod.generate(seed, tier)
        try:
            best, tapes, steps = minimise(mod, case, tag) if not tag.startswith('unlisted-') else (case, None, 0)
            o = mod.evaluate(best, tapes)
            if not any(v[0] == tag for v in o['violations']) and not tag.startswith('unlisted-'):
                best, tapes, o = case, None, mod.evaluate(case)
        except Exception:    # noqa
            print('HARNESS-ERROR property=%s minimiser failed for run %d\n%s' % (pid, i, traceback.format_exc()[-1500:]), file=out)
            exit_code = 2
            continue
        m2 = [v[1] for v in o['violations'] if v[0] == tag]
        path = write_replay(pid, best, tapes, None if tag.startswith('unlisted-') else tag, m2[0] if m2 else msg, o)
        ok, txt = (True, '') if tag.startswith('unlisted-') else confirm_in_fresh_process(pid, path)
        if not ok:
            # the minimised case does not reproduce in a fresh interpreter; a library that keeps state across runs
            # (module-level caches) can cause that. Fall back to the original, unminimised case of that run.
            o0 = mod.evaluate(case)
            m0 = [v[1] for v in o0['violations'] if v[0] == tag]
            path0 = write_replay(pid, case, None, tag, (m0[0] if m0 else msg) + ' [unminimised]', o0)
            ok0, txt0 = confirm_in_fresh_process(pid, path0)
            if ok0:
                ok, path, m2, steps = True, path0, m0 or [msg], 0
                print('NOTE property=%s the minimised case for run %d did not reproduce in a fresh interpreter; reporting the unminimised case' % (pid, i), file=out)
        if not ok:
            unreproducible.append('run %d (tag %s) does not replay from %s\n%s' % (i, tag, path, txt))
            continue
        viol_lines.append((path, tag, (m2[0] if m2 else msg) + ' [run %d, minimised in %d steps]' % (i, steps)))
    for u in unreproducible:
        if viol_lines:
            # something else did reproduce exactly: report that; this one is noise (e.g. a library that keeps state across runs)
            print('NOTE property=%s a violation seen in the batch did not reproduce in a fresh interpreter: %s' % (pid, u.splitlines()[0]), file=out)
        else:
            print('HARNESS-ERROR property=%s nondeterministic: %s' % (pid, u), file=out)
            exit_code = 2
    for kid, (cnt, msg) in sorted(known_lines.items()):
        print('KNOWN-FINDING: property=%s %s %s (matched %d times in this run)' % (pid, kid, msg, cnt), file=out)
    for (path, tag, msg) in viol_lines:
        print('VIOLATION property=%s replay=%s' % (pid, path), file=out)
        print('  %s: %s' % (tag, msg), file=out)
    if viol_lines and exit_code == 0:
        exit_code = 1
    wall = time.time() - t0
    # evidence
    warn = []
    for k in getattr(mod, 'EXPECT_PROBES', {}).get(tier, getattr(mod, 'EXPECT_PROBES', {}).get('all', [])):
        if not tot['probes'].get(k):
            warn.append('probe %s stuck at zero' % k)
    if tot['probes'].get('base_run_failed', 0) > max(5, tot['n'] // 50):
        warn.append('%d of %d runs were skipped because their fault-free base run already misbehaved (harness or library trouble?)' % (tot['probes']['base_run_failed'], tot['n']))
    evals = tot['n'] + (pre.get('evaluations', 0) if pre else 0) + corpus_n
    distinct = len(tot['digests'])
    cov = {
        'evaluations': evals,
        'distinct_nontrivial': distinct,
        'rule': mod.RULE,
        'samples': tot['samples'][:4] or [{'note': 'no sample recorded'}],
        'planned_runs': n, 'completed_runs': tot['n'], 'executions': tot['execs'], 'nontrivial_runs': tot['nontrivial'], 'corpus_replays': corpus_n,
        'wall_cap_hit': tot['capped'],
        'runs_per_hour': int(tot['n'] / max(tot['wall'], 1e-9) * 3600),
        'seeds_per_hour': int(tot['n'] / max(tot['wall'], 1e-9) * 3600),
        'simulated_seconds': round(tot['sim_s'], 3),
        'fault_kinds_fired': {k: v for k, v in sorted(tot['probes'].items()) if k.startswith('fault_') or k.startswith('corrupt_') or k.startswith('filler_') or k.startswith('stall') or k.startswith('usb_err')},
        'probes': {k: v for k, v in sorted(tot['probes'].items())},
        'distinct_interleavings': len(tot['inter']),
        'distinct_abstract_states': len(tot['states']),
        'measures': 'distinct_nontrivial = distinct event-log digests among runs satisfying the rule; distinct_interleavings = distinct digests of the context-switch sequence (actor, site); distinct_abstract_states = distinct (stream phases, store occupancy, lock owners) tuples sampled at context switches',
        'real_vs_stub': getattr(mod, 'REAL_VS_STUB', REAL_VS_STUB),
        'known_findings_matched': {k: v[0] for k, v in known_lines.items()},
        'warnings': warn,
        'workers': WORKERS,
        'repo_digest': repo_digest(),
    }
    if pre:
        cov['prelude'] = {k: v for k, v in pre.items() if k not in ('violations',)}
        if pre.get('exhaustive'):
            cov['prelude_exhaustive'] = True
    ev = {'property_id': pid, 'tier': tier, 'seed': int(base_seed), 'level': mod.LEVEL, 'coverage': cov,
          'assumptions': getattr(mod, 'ASSUMPTIONS', []), 'wall_s': round(wall, 2), 'violations': len(viol_lines)}
    evdir = os.path.join(ROOT, 'evidence') if os.path.realpath(REPO) == '/repo' else os.path.join(ROOT, '.scratch', 'evidence')
    os.makedirs(evdir, exist_ok=True)
    with open(os.path.join(evdir, pid + '.json'), 'w') as f:
        json.dump(ev, f, indent=1, sort_keys=True, default=str)
    print('%s: %d runs (%d executions, %d non-trivial, %d distinct) in %.1fs, %.0f runs/h, %.1f simulated s, violations=%d known=%d%s' % (
        pid, tot['n'], tot['execs'], tot['nontrivial'], distinct, wall, cov['runs_per_hour'], tot['sim_s'], len(viol_lines), len(known_lines),
        ' WALL-CAP-HIT' if tot['capped'] else ''), file=out)
    for w in warn:
        print('WARNING: ' + w, file=out)
    if tot['capped'] and tot['n'] == 0 and exit_code == 0:
        print('HARNESS-ERROR property=%s no run completed within the wall cap' % pid, file=out)
        exit_code = 2
    return exit_code
