"""A fake `usb1` (python-libusb1) module, conforming to its documentation as far as
adb_shell.transport.usb_transport uses it. Inserted as sys.modules['usb1'] before the
library is imported. A stub, and reported as one.

The simulated bus is the module-level list BUS (set by the world builder). A device handle
is wired to a simulator Link (see transport.py) and records every call.
"""

ENDPOINT_DIR_MASK = 0x80
USB_ENDPOINT_DIR_MASK = 0x80
ENDPOINT_IN = 0x80
CLASS_VENDOR_SPEC = 0xFF
CLASS_PER_INTERFACE = 0x00
CLASS_MASS_STORAGE = 0x08
ENDPOINT_OUT = 0x00


class USBError(Exception):
    value = None

    def __init__(self, value=None):
        Exception.__init__(self)
        if value is not None:
            self.value = value

    def __str__(self):
        return '%s [%s]' % (type(self).__name__, self.value)


class USBErrorIO(USBError):
    value = -1


class USBErrorInvalidParam(USBError):
    value = -2


class USBErrorAccess(USBError):
    value = -3


class USBErrorNoDevice(USBError):
    value = -4


class USBErrorNotFound(USBError):
    value = -5


class USBErrorBusy(USBError):
    value = -6


class USBErrorTimeout(USBError):
    value = -7

    def __init__(self, value=None, received=b'', transferred=0):
        USBError.__init__(self, value)
        self.received = received
        self.transferred = transferred


class USBErrorOverflow(USBError):
    value = -8


class USBErrorPipe(USBError):
    value = -9


class USBErrorInterrupted(USBError):
    value = -10


ERRORS = {'io': USBErrorIO, 'nodevice': USBErrorNoDevice, 'timeout': USBErrorTimeout, 'pipe': USBErrorPipe,
          'busy': USBErrorBusy, 'access': USBErrorAccess, 'overflow': USBErrorOverflow, 'notfound': USBErrorNotFound,
          'interrupted': USBErrorInterrupted}

BUS = []          # list of USBDevice visible to USBContext.getDeviceIterator
CALLS = []        # global call record: (name, args...) appended by every backend call


def reset(bus=None):
    del BUS[:]
    del CALLS[:]
    if bus:
        BUS.extend(bus)


class USBEndpoint(object):
    def __init__(self, address, max_packet=512):
        self._address = address
        self._max = max_packet

    def getAddress(self):
        return self._address

    def getMaxPacketSize(self):
        return self._max


class USBInterfaceSetting(object):
    def __init__(self, number, klass, subclass, protocol, endpoints):
        self._number = number
        self._k = (klass, subclass, protocol)
        self._eps = endpoints

    def getNumber(self):
        return self._number

    def getClass(self):
        return self._k[0]

    def getSubClass(self):
        return self._k[1]

    def getProtocol(self):
        return self._k[2]

    def iterEndpoints(self):
        return iter(self._eps)


class USBDevice(object):
    def __init__(self, bus, ports, serial, settings, backend=None):
        self._bus = bus
        self._ports = list(ports)
        self._serial = serial
        self._settings = settings
        self.backend = backend      # object with the simulated handle behaviour
        self.handles = []

    def iterSettings(self):
        return iter(self._settings)

    def getBusNumber(self):
        return self._bus

    def getPortNumberList(self):
        return list(self._ports)

    def getSerialNumber(self):
        if self.backend is not None and getattr(self.backend, 'unplugged', False):
            raise USBErrorNoDevice()     # reading the string descriptor opens the device
        if self._serial is None:
            raise USBErrorAccess()
        return self._serial

    def open(self):
        CALLS.append(('open', self._serial))
        if self.backend is not None:
            self.backend.fault('open')
        h = USBDeviceHandle(self)
        self.handles.append(h)
        return h


class ClosedHandleUse(RuntimeError):
    """A libusb call on a handle that has been closed: undefined behaviour in libusb (use after free, typically a crash). Not a USBError."""


class USBDeviceHandle(object):
    def _alive(self, what):
        if self.closed:
            CALLS.append(('use-after-close', what))
            raise ClosedHandleUse('%s() on a closed libusb handle' % what)

    def __init__(self, device):
        self._device = device
        self.claimed = set()
        self.closed = False
        self.kernel_driver = set(getattr(device, 'kernel_driver', ()))

    def _b(self):
        return self._device.backend

    def kernelDriverActive(self, interface):
        CALLS.append(('kernelDriverActive', interface))
        return interface in self.kernel_driver

    def detachKernelDriver(self, interface):
        CALLS.append(('detachKernelDriver', interface))
        self.kernel_driver.discard(interface)

    def claimInterface(self, interface):
        CALLS.append(('claimInterface', interface))
        self._alive('claimInterface')
        if self._b() is not None:
            self._b().fault('claim')
        if interface in self.kernel_driver:
            raise USBErrorBusy()          # libusb: LIBUSB_ERROR_BUSY if another program or driver has claimed the interface
        for h in self._device.handles:
            if h is not self and not h.closed and interface in h.claimed:
                raise USBErrorBusy()      # libusb: LIBUSB_ERROR_BUSY if another handle has claimed the interface
        self.claimed.add(interface)

    def releaseInterface(self, interface):
        CALLS.append(('releaseInterface', interface))
        self._alive('releaseInterface')
        if self._b() is not None:
            self._b().fault('release')
        if interface not in self.claimed:
            raise USBErrorNotFound()
        self.claimed.discard(interface)

    def close(self):
        CALLS.append(('close',))
        self._alive('close')
        if self._b() is not None:
            self._b().fault('close')
        self.closed = True
        self.claimed.clear()

    def bulkRead(self, endpoint, length, timeout=0):
        CALLS.append(('bulkRead', endpoint, length, timeout))
        self._alive('bulkRead')
        if not self.claimed:
            CALLS.append(('unclaimed-transfer', 'bulkRead'))
        return self._b().bulk_read(self, endpoint, length, timeout)

    def bulkWrite(self, endpoint, data, timeout=0):
        CALLS.append(('bulkWrite', endpoint, len(data), timeout))
        self._alive('bulkWrite')
        if not self.claimed:
            CALLS.append(('unclaimed-transfer', 'bulkWrite'))
        return self._b().bulk_write(self, endpoint, bytes(data), timeout)


class USBContext(object):
    def open(self):
        return self

    def close(self):
        pass

    def __enter__(self):
        return self

    def __exit__(self, *a):
        return False

    def getDeviceIterator(self, skip_on_error=False):
        return iter(list(BUS))

    def getDeviceList(self, skip_on_error=False):
        return list(BUS)
