"""Virtual clock and the `time` shim the library reads it through."""


class SimClock(object):
    def __init__(self, start=1.0e6):
        self.now = float(start)
        self.start = float(start)

    def advance(self, dt):
        if dt > 0:
            self.now += dt

    def jump_to(self, t):
        if t > self.now:
            self.now = t

    def elapsed(self):
        return self.now - self.start


class TimeShim(object):
    """Replaces the module attribute `time` of adb_shell.adb_device[_async]."""
    def __init__(self, clock):
        self._clock = clock

    def time(self):
        return self._clock.now

    # the three clocks tick together but have different origins, as the real ones do: mixing them in one subtraction is a bug
    def monotonic(self):
        return self._clock.now - 987654.25

    def perf_counter(self):
        return self._clock.now - 999000.5

    def sleep(self, dt):
        self._clock.advance(dt)


def patch_clock_refs(mod, shim):
    """Point every reference a module holds to the real clock -- the `time` module itself or functions imported from it
    (`from time import monotonic`) -- at the shim. Returns [(module, attribute, old value)] for unpatch_clock_refs."""
    import time as _t
    table = {id(_t.time): shim.time, id(_t.monotonic): shim.monotonic, id(_t.perf_counter): shim.perf_counter, id(_t.sleep): shim.sleep}
    saved = []
    for name, val in list(vars(mod).items()):
        if val is _t:
            saved.append((mod, name, val))
            setattr(mod, name, shim)
        elif id(val) in table and getattr(val, '__module__', None) == 'time':
            saved.append((mod, name, val))
            setattr(mod, name, table[id(val)])
    return saved


def unpatch_clock_refs(saved):
    for mod, name, val in saved:
        setattr(mod, name, val)
