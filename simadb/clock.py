"""Virtual clock and the `time` shim the library reads it through."""


class SimClock(object):
    def __init__(self, start=1.0e6):
        self.now = float(start)
        self.start = float(start)

    def advance(self, dt):
        if dt > 0:
            self.now += dt

    def jump_to(self, t):
        if t > self.now:
            self.now = t

    def elapsed(self):
        return self.now - self.start


class TimeShim(object):
    """Replaces the module attribute `time` of adb_shell.adb_device[_async]."""
    def __init__(self, clock):
        self._clock = clock

    def time(self):
        return self._clock.now

    def monotonic(self):
        return self._clock.now

    def perf_counter(self):
        return self._clock.now

    def sleep(self, dt):
        self._clock.advance(dt)
