"""The wire between host and device model, plus the in-memory transports built on it.

Link       device->host packet delivery with read fragmentation, host->device writes with
           short-write capacity, the fault plan, per-call time cost, the call log and the
           over-read monitor (C03). Non-blocking primitives; waiting is done by a Waiter
           (single thread: clock jump; baton threads: scheduler) or by awaiting (asyncio).
SimTransport / SimTransportAsync   BaseTransport[Async] subclasses over a Link.
"""
import asyncio

from . import wire as W
from .lib import load


class SimHang(BaseException):
    """A call would block forever (nothing can ever wake it)."""


class SimAbort(BaseException):
    """The run is being torn down (step cap, deadlock, watchdog)."""


class JumpWaiter(object):
    """Single-threaded waiting: nobody else can act, so jump the clock."""
    def __init__(self, clock):
        self.clock = clock

    def wait_until(self, t, link):
        self.clock.jump_to(t)

    def yield_point(self, site):
        pass

    def can_be_woken(self, link):
        return False

    def actor(self):
        return 0


class Link(object):
    def __init__(self, device, clock, tape, cfg, log):
        self.device = device
        self.clock = clock
        self.tape = tape
        self.cfg = cfg
        self.log = log
        self.cur = None
        self.off = 0
        self.connected = False
        self.dead = None
        self.ncalls = 0
        self.calls = []          # (idx, actor, op, n, timeout, outcome)
        self.keep_calls = cfg.get('keep_calls', True)
        self.faults = {}
        for f in cfg.get('faults', []):
            self.faults[f['at']] = f
        self.faults_fired = []
        self.c03 = []
        self.monitor_overread = True
        self.bytes_written = 0
        self.writes = 0
        self.short_writes = 0
        self.reads = 0
        self.frag_reads = 0       # reads that returned fewer bytes than available&requested
        self.empty_reads = 0
        self.hdr_split = 0
        self.payload_split = 0
        self.connects = 0
        self.closes = 0
        self.step_cap = cfg.get('step_cap', 3000000)
        self.call_cost = cfg.get('call_cost', 1e-6)
        self.idle_cost = cfg.get('idle_cost', 0.05)
        self.frag = cfg.get('frag', 'whole')
        self.p_empty = cfg.get('p_empty', 0.0)
        self.short = cfg.get('short')       # None | 'cap'
        self.consec_empty = 0
        self.trickle_next = None
        self.kick = None          # async: callable that wakes sleeping readers
        self.exc = load()['exceptions']
        self.pkts_read = 0
        self.last_read_pkt = None
        self.on_pkt_read = None    # callback(pkt, actor)

    # -- lifecycle ---------------------------------------------------------------------
    def connect(self, timeout, actor=0):
        self.connects += 1
        plan = self.cfg.get('connect_plan') or []
        i = self.connects - 1
        what = plan[i] if i < len(plan) else None
        self.log.ev('connect', actor, what)
        if what == 'refused':
            raise ConnectionRefusedError(111, 'Connection refused (simulated)')
        if what == 'timeout':
            if timeout:
                self.clock.advance(timeout)
            raise self.exc.TcpTimeoutException('Connecting timed out (simulated)')
        if self.connects > 1 and self.cfg.get('heal_on_reconnect'):
            self.faults.clear()      # the reconnect reaches a healthy peer over a healthy link
        self.device.new_session()
        self.cur = None
        self.off = 0
        self.dead = None
        self.trickle_next = None
        self.connected = True
        self.monitor_overread = True

    def close(self, actor=0):
        self.closes += 1
        self.log.ev('close', actor)
        self.connected = False
        if getattr(self, 'fail_next_close', False):
            self.fail_next_close = False
            self.faults_fired.append((-self.closes, 'closefail', 'c'))
            raise OSError(5, 'close failed (injected)')
        if self.closes in (self.cfg.get('close_faults') or ()):
            self.faults_fired.append((-self.closes, 'closefail', 'c'))
            raise OSError(5, 'close failed (injected)')

    # -- per-call bookkeeping ------------------------------------------------------------
    def begin(self, op, n, timeout, actor):
        idx = self.ncalls
        self.ncalls += 1
        if self.ncalls > self.step_cap:
            raise SimAbort('transport call cap %d exceeded' % self.step_cap)
        self.clock.advance(self.call_cost)
        if not self.connected:
            self._rec(idx, actor, op, n, timeout, 'notconn')
            raise OSError(107, 'Transport endpoint is not connected (simulated)')
        if self.dead is not None:
            return idx, {'kind': self.dead, 'persistent': True, 'old': True}
        f = self.faults.pop(idx, None)
        if f is None and op == 'w' and self.cfg.get('drop_link_after_fail') and getattr(self.device, 'fail_fully_read', False):
            # the link dies right after the device's FAIL was read: one more write (its acknowledgement) still goes through
            self.acks_after_fail = getattr(self, 'acks_after_fail', 0) + 1
            if self.acks_after_fail > 1:
                f = {'kind': 'epipe', 'persistent': True}
        if f is not None:
            self.faults_fired.append((idx, f['kind'], op))
            self.monitor_overread = False
            if f.get('persistent') or f['kind'] in ('eof',):
                self.dead = f['kind']
        return idx, f

    def _rec(self, idx, actor, op, n, timeout, outcome):
        self.log.ev('io', idx, actor, op, n, timeout, outcome)
        if self.keep_calls:
            self.calls.append((idx, actor, op, n, timeout, outcome))

    def raise_fault(self, f, op, timeout):
        kind = f['kind']
        E = self.exc
        if kind in ('timeout', 'wtimeout', 'wdelivered'):
            if timeout and timeout > 0 and not f.get('old'):
                self.clock.advance(timeout)
            raise E.TcpTimeoutException('%s timed out (injected)' % op)
        if kind == 'reset':
            raise ConnectionResetError(104, 'Connection reset by peer (injected)')
        if kind in ('eof', 'epipe'):
            if op == 'w':
                raise BrokenPipeError(32, 'Broken pipe (injected)')
            return b''
        if kind == 'empty':
            return b'' if op == 'r' else None
        if kind == 'oserror':
            raise OSError(5, 'I/O error (injected)')
        raise AssertionError(kind)

    # -- device -> host ------------------------------------------------------------------
    def _limit_now(self):
        if self.cur is None:
            return W.HEADER
        n = len(self.cur.raw)
        if self.off < W.HEADER:
            return W.HEADER - self.off
        return n - self.off

    def check_overread(self, n):
        if not self.monitor_overread:
            return
        lim = self._limit_now()
        if n > lim:
            self.c03.append('bulk_read(%d) but only %d bytes remain in the current %s' % (n, lim, 'header' if (self.cur is None or self.off < W.HEADER) else 'payload'))

    def try_read(self, n, actor=0):
        """Bytes available right now (possibly b'' under the empty-read policy), else None."""
        now = self.clock.now
        dev = self.device
        if self.cur is None:
            if not dev.has_ready(now):
                return None
            p = dev.pop_packet(now)
            if p is None:
                return None
            self.cur = p
            self.off = 0
            self.log.ev('pkt', p.seq, p.name(), p.arg0, p.arg1, len(p.data), p.kind)
            st = dev.stall
            if dev.stalled and st and st.get('kind') == 'trickle' and self.trickle_next is None:
                self.trickle_next = now
        raw = self.cur.raw
        if self.trickle_next is None and dev.stalled and dev.stall.get('kind') == 'trickle' and dev.stall.get('mid_packet'):
            self.trickle_next = now
        if self.trickle_next is not None:
            if now < self.trickle_next:
                return None
            self.trickle_next = now + dev.stall.get('interval', 0.5)
            k = 1
        else:
            avail = len(raw) - self.off
            k = self._frag(min(n, avail), n, avail)
        if k == 0:
            self.empty_reads += 1
            return b''
        want = min(n, len(raw) - self.off)
        if k < want:
            self.frag_reads += 1
            if self.off < W.HEADER:
                self.hdr_split += 1
            else:
                self.payload_split += 1
        data = raw[self.off:self.off + k]
        self.off += k
        if self.off >= len(raw):
            p = self.cur
            self.cur = None
            self.off = 0
            self.pkts_read += 1
            dev.on_packet_read(p, now)
            if self.on_pkt_read is not None:
                self.on_pkt_read(p, actor)
        return data

    def _frag(self, m, n, avail):
        """How many of the m deliverable bytes this read returns (0 = an empty read)."""
        pol = self.frag
        if pol == 'whole' or m <= 0:
            return m
        t = self.tape
        if self.p_empty > 0 and self.consec_empty < 2 and t.chance('frag', self.p_empty):
            self.consec_empty += 1
            return 0
        self.consec_empty = 0
        if m == 1:
            return 1
        if pol == 'one':
            return 1
        if pol == 'uniform':
            return m - t.draw('frag', m)
        if pol == 'boundary':
            c = t.draw('frag', 6)
            return (m, 1, m - 1, 2 if m > 2 else 1, max(1, m // 2), min(m, 23))[c]
        if pol == 'mixed':
            c = t.draw('frag', 4)
            if c == 0:
                return m
            if c == 1:
                return 1
            if c == 2:
                return m - 1
            return m - t.draw('frag', m)
        return m

    def next_time(self):
        now = self.clock.now
        if self.trickle_next is not None:
            # under a trickle the next byte (of the packet in progress or of the next packet) is not due before trickle_next
            if self.cur is not None:
                return max(now, self.trickle_next)
            t = self.device.next_event_time(now)
            return None if t is None else max(t, self.trickle_next)
        return self.device.next_event_time(now)

    def readable_now(self):
        """Would a read return bytes right now? (select / pump readiness)"""
        now = self.clock.now
        if self.trickle_next is not None and now < self.trickle_next:
            return False
        return self.cur is not None or self.device.has_ready(now)

    # -- host -> device ------------------------------------------------------------------
    def capacity(self, n):
        if not self.short:
            return n
        t = self.tape
        if self.short == 'stuck':
            return 0
        c = t.draw('short', 10, weights=[3, 2, 1, 2, 2, 1, 1, 1, 2, 0.15])
        cap = (n, n, n, 1, 7, 23, 24, 25, max(1, n // 2), 0)[c]
        if self.short == 'tiny':
            cap = (1, 1, 2, 3, 7, 23, 24, 25, n, 0)[c]
        if self.short == 'pos' and cap == 0:
            cap = 1
        if cap == 0:
            self.zero_caps = getattr(self, 'zero_caps', 0) + 1
        return min(n, cap)

    def deliver(self, data, actor=0):
        k = self.capacity(len(data))
        self.writes += 1
        if k < len(data):
            self.short_writes += 1
        if k:
            self.device.cur_actor = actor
            self.device.on_host_bytes(bytes(data[:k]), self.clock.now)
            self.bytes_written += k
            if self.kick is not None:
                self.kick()
        return k

    # -- blocking forms (sync) -----------------------------------------------------------
    def sync_read(self, n, timeout, waiter):
        actor = waiter.actor()
        waiter.yield_point('read')
        self.check_overread(n)
        idx, f = self.begin('r', n, timeout, actor)
        self.reads += 1
        if f is not None:
            try:
                out = self.raise_fault(f, 'r', timeout)
            except BaseException as e:
                self._rec(idx, actor, 'r', n, timeout, type(e).__name__)
                raise
            if f.get('kind') in ('eof', 'epipe'):
                self.clock.advance(self.idle_cost)
            self._rec(idx, actor, 'r', n, timeout, 0)
            return out
        deadline = None
        if timeout is not None:
            deadline = self.clock.now + max(0.0, timeout)
        if self.cur is None or (self.device.stall or {}).get('mid_packet'):
            self.device._check_stall(self.clock.now)      # a stall begins at a packet boundary (or, on request, inside a packet)
        if (self.cur is None or (self.device.stall or {}).get('mid_packet')) and self.device.stalled and self.device.stall.get('kind') == 'eof':
            self.clock.advance(self.idle_cost)
            self._rec(idx, actor, 'r', n, timeout, 0)
            return b''
        while True:
            data = self.try_read(n, actor)
            if data is not None:
                self._rec(idx, actor, 'r', n, timeout, len(data))
                return data
            if self.cfg.get('idle_returns_empty'):
                # a backend that polls: nothing there right now -> an empty result after a short wait
                self.clock.advance(min(self.idle_cost, timeout) if timeout and timeout > 0 else self.idle_cost)
                self.empty_reads += 1
                self._rec(idx, actor, 'r', n, timeout, 0)
                return b''
            t = self.next_time()
            if t is not None and t <= self.clock.now:
                t = self.clock.now + 1e-7
            if t is None or (deadline is not None and t > deadline):
                if deadline is None:
                    if not waiter.can_be_woken(self):
                        self._rec(idx, actor, 'r', n, timeout, 'HANG')
                        raise SimHang('bulk_read(%d, None) can never return' % n)
                    waiter.wait_until(None, self)
                    continue
                waiter.wait_until(deadline, self)
                if self.clock.now >= deadline:
                    d2 = self.try_read(n, actor) if timeout and timeout > 0 else None
                    if d2 is not None:
                        self._rec(idx, actor, 'r', n, timeout, len(d2))
                        return d2
                    self.monitor_overread = self.monitor_overread and self.cur is None
                    self._rec(idx, actor, 'r', n, timeout, 'TcpTimeoutException')
                    raise self.exc.TcpTimeoutException('Reading timed out (%s seconds, simulated)' % timeout)
                continue
            waiter.wait_until(t, self)

    def sync_write(self, data, timeout, waiter):
        actor = waiter.actor()
        waiter.yield_point('write')
        idx, f = self.begin('w', len(data), timeout, actor)
        if f is not None and f.get('kind') == 'wdelivered':
            self.deliver(data, actor)
            f = dict(f, kind='wtimeout')
        if f is not None and f.get('kind') != 'empty':
            try:
                self.raise_fault(f, 'w', timeout)
            except BaseException as e:
                self._rec(idx, actor, 'w', len(data), timeout, type(e).__name__)
                raise
        k = self.deliver(data, actor)
        gw = self.cfg.get('ghost_in_write')
        if gw and not getattr(self, 'ghost_runs', None) and self.writes >= gw.get('nth', 0) and 0 < k < len(data):
            # while this object is between two pieces of one message (the transport took only a part), another device object of the
            # same process -- its own transport, its own locks -- runs a whole session: a legal schedule for two threads
            from .runner import execute
            from .tape import Tape, h64
            self.ghost_runs = [execute(gw['scn'], Tape(h64('ghost-in-write', gw.get('seed', 0))))]
        if k == 0 and len(data) > 0:
            # nothing accepted: a socket would block until the timeout, then report it
            if timeout is not None and timeout > 0:
                self.clock.advance(timeout)
            else:
                self.clock.advance(self.idle_cost)
            if self.cfg.get('short_zero_raises', True):
                self._rec(idx, actor, 'w', len(data), timeout, 'TcpTimeoutException')
                self.write_raised()
                raise self.exc.TcpTimeoutException('Sending timed out (simulated, no room)')
        self._rec(idx, actor, 'w', len(data), timeout, k)
        return k

    def write_raised(self):
        """A write call raised: the library may give up mid-message, so the peer's framing
        monitor stops here (the connection is unusable from now on, as it would be in reality)."""
        self.zero_capacity_raises = getattr(self, 'zero_capacity_raises', 0) + 1
        if self.device.broken is None and not self.device.at_message_boundary():
            self.device.broken = 'transport-raised-mid-message'


def make_sim_transport(link, waiter):
    Base = load()['base_transport'].BaseTransport

    class SimTransport(Base):
        def __init__(self):
            self.link = link
            self.waiter = waiter

        def close(self):
            link.close(waiter.actor())

        def connect(self, transport_timeout_s):
            waiter.yield_point('connect')
            link.connect(transport_timeout_s, waiter.actor())

        def bulk_read(self, numbytes, transport_timeout_s):
            return link.sync_read(numbytes, transport_timeout_s, waiter)

        def bulk_write(self, data, transport_timeout_s):
            return link.sync_write(data, transport_timeout_s, waiter)

    return SimTransport()


# ----------------------------------------------------------------------------------------
class AsyncOps(object):
    """asyncio forms of the Link operations (used by SimTransportAsync and the simulated
    asyncio.Transport)."""

    def __init__(self, link, loop):
        self.link = link
        self.loop = loop
        self.sleepers = []
        link.kick = self._kick

    def _kick(self):
        for fut in self.sleepers:
            if not fut.done():
                fut.set_result(None)
        del self.sleepers[:]

    async def sleep_until(self, t):
        loop = self.loop
        fut = loop.create_future()
        h = None
        if t is not None:
            h = loop.call_at(t, lambda: (not fut.done()) and fut.set_result(None))
        self.sleepers.append(fut)
        try:
            await fut
        finally:
            if h is not None:
                h.cancel()
            if fut in self.sleepers:
                self.sleepers.remove(fut)

    async def maybe_yield(self):
        p = self.link.cfg.get('ayield', 0.0)
        if p <= 0:
            return
        c = self.link.tape.draw('ayield', 3, weights=[1.0 - p, p * 0.7, p * 0.3])
        if c == 1:
            await asyncio.sleep(0)
        elif c == 2:
            await asyncio.sleep(1e-4)

    def actor(self):
        t = asyncio.current_task()
        return getattr(t, 'sim_actor', 0) if t is not None else 0

    async def read(self, n, timeout):
        link = self.link
        actor = self.actor()
        await self.maybe_yield()
        link.check_overread(n)
        idx, f = link.begin('r', n, timeout, actor)
        link.reads += 1
        if f is not None:
            try:
                out = link.raise_fault(f, 'r', timeout)
            except BaseException as e:
                link._rec(idx, actor, 'r', n, timeout, type(e).__name__)
                raise
            if f.get('kind') in ('eof', 'epipe'):
                link.clock.advance(link.idle_cost)
            link._rec(idx, actor, 'r', n, timeout, 0)
            return out
        clock = link.clock
        deadline = None
        if timeout is not None:
            deadline = clock.now + max(0.0, timeout)
        if link.cur is None or (link.device.stall or {}).get('mid_packet'):
            link.device._check_stall(clock.now)
        if (link.cur is None or (link.device.stall or {}).get('mid_packet')) and link.device.stalled and link.device.stall.get('kind') == 'eof':
            clock.advance(link.idle_cost)
            link._rec(idx, actor, 'r', n, timeout, 0)
            return b''
        while True:
            data = link.try_read(n, actor)
            if data is not None:
                link._rec(idx, actor, 'r', n, timeout, len(data))
                return data
            if link.cfg.get('idle_returns_empty'):
                clock.advance(min(link.idle_cost, timeout) if timeout and timeout > 0 else link.idle_cost)
                link.empty_reads += 1
                link._rec(idx, actor, 'r', n, timeout, 0)
                return b''
            t = link.next_time()
            if t is not None and t <= clock.now:
                t = clock.now + 1e-7
            if t is None or (deadline is not None and t > deadline):
                if deadline is None:
                    if len(asyncio.all_tasks(self.loop)) <= 1:
                        link._rec(idx, actor, 'r', n, timeout, 'HANG')
                        raise SimHang('bulk_read(%d, None) can never return' % n)
                    await self.sleep_until(None)
                    continue
                await self.sleep_until(deadline)
                if clock.now >= deadline:
                    d2 = link.try_read(n, actor) if timeout and timeout > 0 else None
                    if d2 is not None:
                        link._rec(idx, actor, 'r', n, timeout, len(d2))
                        return d2
                    link.monitor_overread = link.monitor_overread and link.cur is None
                    link._rec(idx, actor, 'r', n, timeout, 'TcpTimeoutException')
                    raise link.exc.TcpTimeoutException('Reading timed out (%s seconds, simulated)' % timeout)
                continue
            await self.sleep_until(t)

    async def write(self, data, timeout):
        link = self.link
        actor = self.actor()
        await self.maybe_yield()
        idx, f = link.begin('w', len(data), timeout, actor)
        if f is not None and f.get('kind') == 'wdelivered':
            link.deliver(data, actor)
            f = dict(f, kind='wtimeout')
        if f is not None and f.get('kind') != 'empty':
            try:
                link.raise_fault(f, 'w', timeout)
            except BaseException as e:
                link._rec(idx, actor, 'w', len(data), timeout, type(e).__name__)
                raise
        k = link.deliver(data, actor)
        if k == 0 and len(data) > 0:
            if timeout is not None and timeout > 0:
                link.clock.advance(timeout)
            else:
                link.clock.advance(link.idle_cost)
            if link.cfg.get('short_zero_raises', True):
                link._rec(idx, actor, 'w', len(data), timeout, 'TcpTimeoutException')
                link.write_raised()
                raise link.exc.TcpTimeoutException('Sending timed out (simulated, no room)')
        link._rec(idx, actor, 'w', len(data), timeout, k)
        return k


def make_sim_transport_async(link, loop):
    Base = load()['base_transport_async'].BaseTransportAsync
    ops = AsyncOps(link, loop)

    class SimTransportAsync(Base):
        def __init__(self):
            self.link = link
            self.ops = ops

        async def close(self):
            link.close(ops.actor())

        async def connect(self, transport_timeout_s):
            await ops.maybe_yield()
            link.connect(transport_timeout_s, ops.actor())

        async def bulk_read(self, numbytes, transport_timeout_s):
            return await ops.read(numbytes, transport_timeout_s)

        async def bulk_write(self, data, transport_timeout_s):
            return await ops.write(data, transport_timeout_s)

    return SimTransportAsync()
