"""Command line: ./check <property|selftest-*> [--tier T] [--seed N] [--runs N] [--replay FILE]"""
import argparse
import os
import sys
import traceback


def main(argv):
    ap = argparse.ArgumentParser(prog='check')
    ap.add_argument('what')
    ap.add_argument('--tier', default=os.environ.get('VERIF_TIER', 'quick'), choices=['quick', 'thorough'])
    ap.add_argument('--seed', type=int, default=int(os.environ.get('VERIF_SEED', '0') or 0))
    ap.add_argument('--runs', type=int, default=None)
    ap.add_argument('--replay', default=None)
    ap.add_argument('--wall', type=float, default=None)
    ap.add_argument('--no-corpus', action='store_true')
    a = ap.parse_args(argv)
    try:
        from . import batch
        from .lib import load
        load()
        if a.what.startswith('selftest'):
            from . import selftest
            return selftest.main(a.what, a)
        if a.replay:
            code, text = batch.replay_file(a.what, a.replay)
            print(text)
            return code
        return batch.check(a.what, a.tier, a.seed, a.runs, a.wall, corpus=not a.no_corpus)
    except SystemExit:
        raise
    except BaseException:    # noqa
        print('HARNESS-ERROR %s\n%s' % (a.what, traceback.format_exc()))
        return 2
