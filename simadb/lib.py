"""Loads the library under test from VERIF_REPO (default /repo) — always the working tree."""
import hashlib
import os
import sys

REPO = os.environ.get('VERIF_REPO', '/repo')
_loaded = {}


def load():
    """Import adb_shell from REPO's working tree, with the fake usb1 in place. Idempotent."""
    if _loaded:
        return _loaded
    if REPO not in sys.path or sys.path[0] != REPO:
        sys.path.insert(0, REPO)
    from . import fakeusb1
    sys.modules.setdefault('usb1', fakeusb1)
    import adb_shell
    here = os.path.realpath(os.path.dirname(adb_shell.__file__))
    want = os.path.realpath(os.path.join(REPO, 'adb_shell'))
    if here != want:
        raise RuntimeError('adb_shell imported from %s, expected %s' % (here, want))
    from adb_shell import adb_device, adb_device_async, adb_message, constants, exceptions, hidden_helpers
    from adb_shell.transport import base_transport, base_transport_async, tcp_transport, tcp_transport_async, usb_transport
    _loaded.update(dict(adb_device=adb_device, adb_device_async=adb_device_async, adb_message=adb_message, constants=constants,
                        exceptions=exceptions, hidden_helpers=hidden_helpers, base_transport=base_transport,
                        base_transport_async=base_transport_async, tcp_transport=tcp_transport,
                        tcp_transport_async=tcp_transport_async, usb_transport=usb_transport))
    return _loaded


def repo_digest():
    m = hashlib.sha256()
    root = os.path.join(REPO, 'adb_shell')
    for d, _, files in sorted(os.walk(root)):
        for f in sorted(files):
            if f.endswith('.py'):
                p = os.path.join(d, f)
                m.update(os.path.relpath(p, root).encode())
                with open(p, 'rb') as fh:
                    m.update(fh.read())
    return m.hexdigest()[:16]
