"""Independent ADB / sync codec written from AOSP protocol.txt and SYNC.TXT.

Imports nothing from adb_shell: constants are typed by hand so that a systematic framing
error in the library is not self-consistent with the checker.
"""
import struct

A_SYNC = 0x434e5953
A_CNXN = 0x4e584e43
A_AUTH = 0x48545541
A_OPEN = 0x4e45504f
A_OKAY = 0x59414b4f
A_CLSE = 0x45534c43
A_WRTE = 0x45545257

NAMES = {A_SYNC: 'SYNC', A_CNXN: 'CNXN', A_AUTH: 'AUTH', A_OPEN: 'OPEN', A_OKAY: 'OKAY', A_CLSE: 'CLSE', A_WRTE: 'WRTE'}
CODES = {v: k for k, v in NAMES.items()}

A_VERSION = 0x01000000
HOST_MAXDATA = 1024 * 1024
AUTH_TOKEN = 1
AUTH_SIGNATURE = 2
AUTH_RSAPUBLICKEY = 3
HEADER = 24


def mkid(four):
    return four[0] | (four[1] << 8) | (four[2] << 16) | (four[3] << 24)


ID_LIST = mkid(b'LIST')
ID_SEND = mkid(b'SEND')
ID_RECV = mkid(b'RECV')
ID_DENT = mkid(b'DENT')
ID_DONE = mkid(b'DONE')
ID_DATA = mkid(b'DATA')
ID_OKAY = mkid(b'OKAY')
ID_FAIL = mkid(b'FAIL')
ID_STAT = mkid(b'STAT')
ID_QUIT = mkid(b'QUIT')
SYNC_NAMES = {ID_LIST: 'LIST', ID_SEND: 'SEND', ID_RECV: 'RECV', ID_DENT: 'DENT', ID_DONE: 'DONE', ID_DATA: 'DATA',
              ID_OKAY: 'OKAY', ID_FAIL: 'FAIL', ID_STAT: 'STAT', ID_QUIT: 'QUIT'}
SYNC_DATA_MAX = 64 * 1024


def bytesum(data):
    return sum(data) & 0xFFFFFFFF


def pack(cmd, arg0, arg1, data=b''):
    return struct.pack('<IIIIII', cmd, arg0 & 0xFFFFFFFF, arg1 & 0xFFFFFFFF, len(data), bytesum(data), cmd ^ 0xFFFFFFFF) + bytes(data)


def parse_header(hdr):
    """-> (cmd, arg0, arg1, length, check, magic)"""
    assert len(hdr) == HEADER
    return struct.unpack('<IIIIII', hdr)


def header_problems(hdr, limit=None):
    """Check a host header against protocol.txt; returns a list of strings (empty = fine).
    limit: the largest payload the receiving device takes (its announced maxdata, at least 1 MiB)."""
    cmd, _, _, length, _, magic = parse_header(hdr)
    probs = []
    if cmd not in NAMES:
        probs.append('unknown command word 0x%08x' % cmd)
    if magic != (cmd ^ 0xFFFFFFFF):
        probs.append('magic 0x%08x != ~command 0x%08x' % (magic, cmd ^ 0xFFFFFFFF))
    if length > max(HOST_MAXDATA, limit or 0):
        probs.append('data_length %d exceeds %s' % (length, '1 MiB' if not limit or limit <= HOST_MAXDATA else 'the device\'s %d' % limit))
    return probs


def sync_req(idw, data):
    return struct.pack('<II', idw, len(data)) + data


def sync_dent(mode, size, mtime, name):
    return struct.pack('<IIIII', ID_DENT, mode, size, mtime, len(name)) + name


def sync_list_done():
    return struct.pack('<IIIII', ID_DONE, 0, 0, 0, 0)


def sync_stat(mode, size, mtime):
    return struct.pack('<IIII', ID_STAT, mode, size, mtime)


def sync_data(chunk):
    return struct.pack('<II', ID_DATA, len(chunk)) + chunk


def sync_done(v=0):
    return struct.pack('<II', ID_DONE, v)


def sync_okay():
    return struct.pack('<II', ID_OKAY, 0)


def sync_fail(reason):
    return struct.pack('<II', ID_FAIL, len(reason)) + reason
