"""Event-driven model of adbd (the peer). Clock-agnostic: callers pass `now`.

The model is used unchanged behind the in-memory transports, the simulated TCP socket and
the fake usb1 handle. It imports nothing from adb_shell.

Interface used by transports
    new_session()                 a fresh TCP/USB connection was made
    on_host_bytes(data, now)      bytes written by the host arrive (parsed + monitored)
    has_ready(now)                is a packet eligible to be put on the wire now?
    next_event_time(now)          earliest future instant at which one becomes eligible
    pop_packet(now)               adversary picks one eligible packet (per-stream FIFO kept)
    on_packet_read(pkt, now)      the host has read the last byte of pkt
"""
import base64
import random
import struct
from collections import deque

from . import wire as W

SHA1_DIGESTINFO = bytes.fromhex('3021300906052b0e03021a05000414')


# ----------------------------------------------------------------------------------------
# content expansion (scenario files store compact descriptors, never megabytes)
# ----------------------------------------------------------------------------------------
_UTF8_POOL = ['a', 'Z', '0', ' ', '\n', 'é', 'ü', '€', '中', '文', '\U0001f600', '\U00010348', '\x00', '߿', '￿']


def expand(cspec):
    """cspec = {'seed','size','alpha'} -> bytes (deterministic)."""
    if cspec.get('literal_hex') is not None:
        return bytes.fromhex(cspec['literal_hex'])
    if cspec.get('prefix_hex'):
        rest = dict(cspec)
        pre = bytes.fromhex(rest.pop('prefix_hex'))
        return (pre + expand(rest))[:max(int(cspec.get('size', 0)), len(pre))]
    size = int(cspec.get('size', 0))
    alpha = cspec.get('alpha', 'bin')
    r = random.Random(cspec.get('seed', 0))
    if size <= 0:
        return b''
    if alpha == 'zero':
        return bytes(size)
    if alpha == 'ff':
        return b'\xff' * size
    if alpha == 'ids':
        # content that looks like sync protocol records: ids (FAIL, DONE, ...) and small little-endian lengths
        base = b''.join(r.choices([b'FAIL', b'DONE', b'DATA', b'DENT', b'OKAY', b'STAT', b'QUIT', b'RECV', b'\x04\x00\x00\x00', b'\x00\x00\x00\x00', b'\x10\x00\x00\x00'], k=min(size // 4 + 1, 4096)))
    elif alpha == 'ascii':
        base = bytes(r.choices(b'abcdefghijklmnopqrstuvwxyz0123456789 \n', k=min(size, 4096)))
    elif alpha == 'utf8':
        base = ''.join(r.choices(_UTF8_POOL, k=min(size, 2048))).encode('utf8')
    elif alpha == 'badutf8':
        parts = []
        for _ in range(min(size, 1024)):
            c = r.random()
            if c < 0.5:
                parts.append(r.choice(_UTF8_POOL).encode('utf8'))
            elif c < 0.8:
                parts.append(bytes([r.randrange(0x80, 0x100)]))
            else:
                parts.append(r.choice(_UTF8_POOL).encode('utf8')[:-1] or b'\xc3')
        base = b''.join(parts)
    else:
        base = r.randbytes(min(size, 65536))
    if not base:
        base = b'x'
    if len(base) >= size:
        out = base[:size]
    else:
        # long contents: seeded block repetition with a running counter so that every
        # 64 KiB block differs (a dropped / duplicated / swapped chunk changes the bytes)
        out = bytearray()
        k = 0
        while len(out) < size:
            out += struct.pack('<I', k ^ 0x5a5a5a5a)
            out += base
            k += 1
        out = bytes(out[:size])
    return out


def cut(data, sizes):
    """Cut `data` by the list of sizes (0 = an empty piece); the rest goes in a last piece."""
    out = []
    i = 0
    for s in sizes:
        if i >= len(data) and s > 0:
            break
        out.append(data[i:i + s])
        i += s
    if i < len(data):
        out.append(data[i:])
    return out


def cut_by_plan(data, plan, maxlen, boundaries=()):
    """Cut a sync reply byte string into WRTE payloads (each <= maxlen) under a seeded policy."""
    if not data:
        return []
    policy = plan.get('policy', 'whole')
    r = random.Random(plan.get('seed', 0))
    out = []
    i = 0
    n = len(data)
    bset = sorted(set(b for b in boundaries if 0 < b < n))
    bi = 0
    while i < n:
        if policy == 'whole':
            k = maxlen
        elif policy == 'tiny':
            k = r.randint(1, 16)
        elif policy == 'one':
            k = 1
        elif policy == 'record':
            while bi < len(bset) and bset[bi] <= i:
                bi += 1
            k = (bset[bi] - i) if bi < len(bset) else n - i
        elif policy == 'straddle':
            # end each payload a few bytes *inside* the next record header
            while bi < len(bset) and bset[bi] <= i:
                bi += 1
            if bi < len(bset):
                k = bset[bi] - i + r.randint(1, 7)
                bi += 1
            else:
                k = n - i
        else:  # 'random'
            k = r.choice([1, 2, 3, 7, 8, 9, 15, 16, 17, 19, 20, 21, 24, 100, 1000, 4096, 65535, 65536, 65544, maxlen])
            if r.random() < 0.5:
                k = r.randint(1, max(1, min(maxlen, k)))
        k = max(1, min(k, maxlen, n - i))
        out.append(data[i:i + k])
        i += k
    return out


def shell_payloads(dspec, key):
    """Ground truth for a shell/exec command: the payload list the device writes."""
    c = dspec.get('cmds', {}).get(key)
    if c is None or c.get('hang'):
        return []
    data = expand(c['content'])
    pieces = cut(data, c.get('cuts', [])) if (c.get('cuts') is not None) else [data]
    limit = min(int(dspec.get('maxdata', 4096)), W.HOST_MAXDATA)
    final = []
    for p in pieces:
        if len(p) <= limit:
            final.append(p)
        else:
            final += [p[i:i + limit] for i in range(0, len(p), limit)]
    return final


# ----------------------------------------------------------------------------------------
class Pkt(object):
    __slots__ = ('cmd', 'arg0', 'arg1', 'data', 'ready', 'sid', 'seq', 'kind', 'raw', 'note')

    def __init__(self, cmd, arg0, arg1, data=b'', ready=0.0, sid=None, kind=''):
        self.cmd = cmd
        self.arg0 = arg0
        self.arg1 = arg1
        self.data = bytes(data)
        self.ready = ready
        self.sid = sid
        self.seq = -1
        self.kind = kind
        self.raw = None
        self.note = None

    def name(self):
        return W.NAMES.get(self.cmd, hex(self.cmd))

    def brief(self):
        return '%s(%d,%d,%dB)' % (self.name(), self.arg0, self.arg1, len(self.data))


class Stream(object):
    def __init__(self, sid, local, remote, dest):
        self.sid = sid
        self.local = local            # host's id
        self.remote = remote          # our id
        self.dest = dest
        self.outq = deque()
        self.await_okay = False       # we sent a WRTE and the host's OKAY has not arrived
        self.dev_closed = False       # our CLSE has been queued
        self.dev_clse_emitted = False
        self.dev_clse_read = False
        self.host_closed = False      # host CLSE has arrived
        self.svc = None
        self.last_ready = 0.0
        # ground truth
        self.sent_payloads = []       # WRTE payloads put on the wire, in order
        self.read_payloads = []       # ... and completely read by the host
        self.recv_payloads = []       # host WRTE payloads
        # protocol monitor (C04)
        self.read_unacked = 0         # device WRTEs fully read by the host and not yet OKAYed
        self.host_wrte_outstanding = False
        self.okay_for_host_wrte_pending = 0
        self.host_clse_count = 0
        self.host_okays = 0
        self.open_okay_read = False

    def live(self):
        return not (self.host_closed or self.dev_clse_emitted)


class Device(object):
    def __init__(self, spec, tape, log=None):
        self.spec = spec
        self.tape = tape
        self.log = log if log is not None else (lambda *a: None)
        self.maxdata = int(spec.get('maxdata', 4096))
        self.close_mode = spec.get('close_mode', 'strict')
        self.clse_zero = bool(spec.get('clse_zero', False))
        self.lat = spec.get('latency', {'mode': 'zero'})
        self.fs = {}
        for p, f in spec.get('fs', {}).items():
            self.fs[p] = dict(f)
        self.dirs = spec.get('dirs', {})
        self.cmds = spec.get('cmds', {})
        self.stall = spec.get('stall')          # C11
        self.corrupt = dict(spec['corrupt']) if spec.get('corrupt') else None      # C03 fault batch (copied: the device marks it done)
        self._content_cache = {}
        # monitors / ground truth that survive sessions
        self.c02 = []            # wire-format problems
        self.c04 = []            # stream-protocol problems
        self.notes = []
        self.probes = {}
        self.host_pkts = []      # every complete host message: (session, name, arg0, arg1, len, sum)
        self.host_log_full = []  # (name, arg0, arg1, data) when spec['keep_host_data']
        self.keep_host_data = bool(spec.get('keep_host_data', True))
        self.all_streams = []    # every Stream ever created (all sessions)
        self.pushed = []         # completed pushes: dict(path, mode, mtime, data, t0, t1, datas)
        self.push_attempts = []
        self.sessions = 0
        self.auth_log = []       # handshake ground truth per session
        self.emitted = 0
        self.total_emitted = 0
        self.fail_on_wire_at = None
        self.new_session(first=True)

    # -- helpers -------------------------------------------------------------------------
    def probe(self, name, n=1):
        self.probes[name] = self.probes.get(name, 0) + n

    def content(self, cspec):
        key = (cspec.get('seed', 0), cspec.get('size', 0), cspec.get('alpha', 'bin'))
        c = self._content_cache.get(key)
        if c is None:
            c = self._content_cache[key] = expand(cspec)
        return c

    def file_bytes(self, path):
        f = self.fs.get(path)
        if f is None:
            return None
        if 'data' in f:
            return f['data']
        return self.content(f['content'])

    def _latency(self, scale=1.0):
        mode = self.lat.get('mode', 'zero')
        if mode == 'zero':
            return 0.0
        mx = self.lat.get('max', 0.02)
        v = self.tape.draw('lat', 5)
        return (0.0, mx * 0.001, mx * 0.05, mx * 0.3, mx)[v] * scale

    # -- session -------------------------------------------------------------------------
    def new_session(self, first=False):
        if not first:
            self.sessions += 1
            if getattr(self, 'rxbuf', None):
                # the connection went away in the middle of a message (noted; whether that is acceptable depends on who closed it and why)
                self.session_truncations = getattr(self, 'session_truncations', []) + [(self.sessions - 1, len(self.rxbuf))]
        self.rxbuf = bytearray()
        self.rx_hdr = None
        self.streams = {}        # remote id -> Stream (this session)
        self.by_local = {}       # host local id -> Stream (live or most recent)
        self.connq = deque()
        self.connected = False
        self.broken = None       # framing lost: adbd would drop the connection
        self.sess = {'cnxn_seen': False, 'challenges': [], 'sigs': [], 'pubkey': None, 'cnxn_sent': False,
                     'cnxn_maxdata': None, 'first_pkt': None, 'after_cnxn': [], 'pubkey_time': None, 'bad_challenge': False}
        self.auth_log.append(self.sess)
        self.emitted = 0
        self.stalled = False
        self.stall_next = None
        self.filler_n = 0
        ms = self.spec.get('maxdata_sessions')
        if ms:
            self.maxdata = int(ms[min(max(0, self.sessions - 1), len(ms) - 1)])
        self.auth_spec = self.spec.get('auth')
        if isinstance(self.auth_spec, list):
            # one auth behaviour per session (repeated connect() calls)
            idx = min(max(0, self.sessions - 1), len(self.auth_spec) - 1)
            self.auth_spec = self.auth_spec[idx]
        self.keys_tried = 0

    # -- host -> device ------------------------------------------------------------------
    def on_host_bytes(self, data, now):
        if self.broken:
            return
        self.rxbuf += data
        while True:
            if self.rx_hdr is None:
                if len(self.rxbuf) < W.HEADER:
                    return
                hdr = bytes(self.rxbuf[:W.HEADER])
                del self.rxbuf[:W.HEADER]
                probs = W.header_problems(hdr, self.maxdata)
                if probs:
                    self.c02.append('bad header %s: %s' % (hdr.hex(), '; '.join(probs)))
                    self.broken = 'framing'
                    return
                self.rx_hdr = hdr
            cmd, arg0, arg1, length, check, _ = W.parse_header(self.rx_hdr)
            if len(self.rxbuf) < length:
                return
            payload = bytes(self.rxbuf[:length])
            del self.rxbuf[:length]
            hdr = self.rx_hdr
            self.rx_hdr = None
            if W.bytesum(payload) != check:
                self.c02.append('%s payload checksum 0x%x != header data_check 0x%x (len %d)' % (W.NAMES[cmd], W.bytesum(payload), check, length))
                self.broken = 'checksum'
                return
            self.host_pkts.append((self.sessions, W.NAMES[cmd], arg0, arg1, length, check))
            if self.keep_host_data:
                self.host_log_full.append((W.NAMES[cmd], arg0, arg1, payload, hdr))
            self.handle(cmd, arg0, arg1, payload, now)

    def at_message_boundary(self):
        return self.rx_hdr is None and not self.rxbuf

    # -- dispatch ------------------------------------------------------------------------
    def handle(self, cmd, arg0, arg1, data, now):
        if self.sess['first_pkt'] is None:
            self.sess['first_pkt'] = (W.NAMES[cmd], arg0, arg1, data)
        if cmd == W.A_CNXN:
            self._on_cnxn(arg0, arg1, data, now)
        elif cmd == W.A_AUTH:
            self._on_auth(arg0, arg1, data, now)
        elif not self.connected:
            if self.sess['cnxn_sent'] is False:
                self.c04.append('%s sent before the connection was established' % W.NAMES[cmd])
        elif cmd == W.A_OPEN:
            self._on_open(arg0, arg1, data, now)
        elif cmd == W.A_OKAY:
            self._on_okay(arg0, arg1, data, now)
        elif cmd == W.A_WRTE:
            self._on_wrte(arg0, arg1, data, now)
        elif cmd == W.A_CLSE:
            self._on_clse(arg0, arg1, data, now)
        else:
            self.c04.append('unexpected %s from host' % W.NAMES[cmd])

    # -- connection / auth ---------------------------------------------------------------
    def _conn_push(self, pkt, now, lat=None):
        last = self.connq[-1].ready if self.connq else now
        pkt.ready = max(last, now) + (self._latency() if lat is None else lat)
        self.connq.append(pkt)

    def _send_cnxn(self, now, lat=None):
        banner = self.spec.get('banner', 'device::ro.product.name=sim;ro.product.model=SimAdb;features=shell_v2,cmd').encode()
        if self.spec.get('banner_hex'):
            banner = bytes.fromhex(self.spec['banner_hex'])      # e.g. a model name in a legacy code page: not valid UTF-8
        self._conn_push(Pkt(W.A_CNXN, int(self.spec.get('version', W.A_VERSION)), self.maxdata, banner, kind='cnxn'), now, lat)
        self.sess['cnxn_sent'] = True
        self.sess['cnxn_maxdata'] = self.maxdata
        self.connected = True

    def _strays(self, now):
        a = self.auth_spec or {}
        for s in a.get('stray', []) if self.auth_spec else self.spec.get('stray', []):
            # stale packets of an earlier life of the connection; not CNXN/AUTH
            cmd = {'OKAY': W.A_OKAY, 'CLSE': W.A_CLSE, 'WRTE': W.A_WRTE}[s[0]]
            self._conn_push(Pkt(cmd, s[1], s[2], bytes.fromhex(s[3]) if len(s) > 3 else b'', kind='stray'), now)
            self.probe('stray_before_answer')

    def _challenge(self, now):
        a = self.auth_spec
        n = len(self.sess['challenges'])
        tok = bytes(self.tape.draw('token', 256) for _ in range(20)) if a.get('random_tokens', True) else bytes([n + 1]) * 20
        if a.get('token_fixed') is not None:
            tok = bytes.fromhex(a['token_fixed'])
        arg0 = W.AUTH_TOKEN
        if a.get('bad_challenge_at') is not None and a['bad_challenge_at'] == n:
            arg0 = a.get('bad_challenge_arg0', 7)
            self.sess['bad_challenge'] = True
        self.sess['challenges'].append((arg0, tok))
        if a.get('stray_each', False) or n == 0:
            self._strays(now)
        self._conn_push(Pkt(W.A_AUTH, arg0, 0, tok, kind='auth'), now)

    def _on_cnxn(self, arg0, arg1, data, now):
        self.sess['cnxn_seen'] = (arg0, arg1, data)
        if self.sess['cnxn_sent']:
            self.c04.append('second CNXN in one session')
            return
        if self.spec.get('cnxn_silent') or (self.sessions - 1) in self.spec.get('silent_sessions', ()):
            return
        if not self.auth_spec:
            self._strays(now)
            self._send_cnxn(now)
        else:
            self._challenge(now)

    def _verify(self, sig, token, pub):
        n, e = pub
        if len(sig) != (n.bit_length() + 7) // 8:
            return False
        m = pow(int.from_bytes(sig, 'big'), e, n)
        k = (n.bit_length() + 7) // 8
        t = SHA1_DIGESTINFO + token
        em = b'\x00\x01' + b'\xff' * (k - len(t) - 3) + b'\x00' + t
        return m == int.from_bytes(em, 'big')

    def _on_auth(self, arg0, arg1, data, now):
        a = self.auth_spec
        if self.sess['cnxn_sent']:
            self.sess['after_cnxn'].append(('AUTH', arg0))
            return
        if not a:
            self.c04.append('AUTH from host without a challenge')
            return
        keys = getattr(self, 'pubkeys', [])
        if self.sess.get('auth_silent'):
            return
        if arg0 == W.AUTH_SIGNATURE:
            last_arg0, last_tok = self.sess['challenges'][-1]
            # which fixture keys verify this signature over the most recent token?
            ok = [i for i, pub in enumerate(keys) if self._verify(data, last_tok, pub)]
            older = []
            for (_, t) in self.sess['challenges'][:-1]:
                older += [i for i, pub in enumerate(keys) if self._verify(data, t, pub)]
            self.sess['sigs'].append({'valid_for': ok, 'valid_for_older_token': older, 'after_challenge': len(self.sess['challenges']) - 1, 'len': len(data)})
            if a.get('silent_after_sig') is not None and a['silent_after_sig'] == len(self.sess['sigs']) - 1:
                # the device stops answering after this signature (neither CNXN nor a new challenge)
                self.sess['auth_silent'] = True
                self.probe('auth_silent_after_signature')
                return
            accept = a.get('accept_key')      # fixture index the device trusts, or None
            if accept is not None and accept in ok and last_arg0 == W.AUTH_TOKEN:
                self._send_cnxn(now)
            else:
                self._challenge(now)
        elif arg0 == W.AUTH_RSAPUBLICKEY:
            self.sess['pubkey'] = data
            self.sess['pubkey_time'] = now
            pol = a.get('pubkey', 'accept')
            if pol.startswith('rechallenge'):
                # adbd asks again while the user has not decided yet: a fresh AUTH(TOKEN) follows the offered public key
                self._challenge(now)
                self.probe('auth_rechallenge_after_pubkey')
                pol = 'accept' if pol == 'rechallenge_accept' else 'silent'
            if pol == 'accept':
                self._send_cnxn(now, lat=a.get('think_s', 0.0))
            elif pol == 'late':
                self._send_cnxn(now, lat=a.get('late_s', 1.0))
            # 'silent': the user never taps the dialog
        else:
            self.c04.append('AUTH with arg0=%d from host' % arg0)

    # -- streams -------------------------------------------------------------------------
    def _new_remote_id(self, local):
        used_local = set(self.by_local.keys()) | {local}
        if self.spec.get('rid_style') == 'seq':
            # adbd numbers its sockets from the start again after every (re)connection: the same remote ids come back
            rid = 0x10000 + len([s for s in self.all_streams if s.session == self.sessions])
            while rid in self.streams or rid in used_local:
                rid += 1
            return rid
        parts = [self.tape.draw('rid', 256) for _ in range(4)]
        rid = parts[0] | (parts[1] << 8) | (parts[2] << 16) | (parts[3] << 24)
        if self.spec.get('rid_style', 'wide') == 'high':
            rid |= 0xFFFF0000
        if rid < 0x10000:
            rid += 0x10000
        # deterministic probing: never 0, never a local id in use, never a live remote id
        for _ in range(1 << 16):
            if rid not in self.streams and rid not in used_local and rid >= 0x10000:
                return rid
            rid = (rid + 1) & 0xFFFFFFFF
            if rid < 0x10000:
                rid = 0x10000
        raise AssertionError('no remote id')

    def _q(self, s, pkt, now, lat=None):
        base = max(s.last_ready, now, getattr(self, 'busy_until', 0.0))
        pkt.ready = base + (self._latency() if lat is None else lat)
        s.last_ready = pkt.ready
        pkt.sid = s.sid
        s.outq.append(pkt)

    def q_wrte(self, s, data, now, lat=None, kind='wrte'):
        # legacy adbd fills in a zero remote id on some packets; the host accepts that on purpose (allow_zeros)
        arg0 = 0 if self.spec.get('wrte_zero') else s.remote
        if arg0 == 0:
            self.probe('wrte_with_zero_remote_id')
        self._q(s, Pkt(W.A_WRTE, arg0, s.local, data, kind=kind), now, lat)

    def q_close(self, s, now, lat=None, zero=False):
        if s.dev_closed:
            return
        s.dev_closed = True
        self._q(s, Pkt(W.A_CLSE, 0 if zero else s.remote, s.local, kind='clse'), now, lat)

    def _on_open(self, local, arg1, data, now):
        prev = self.by_local.get(local)
        if local == 0:
            self.c04.append('OPEN with local id 0')
        if prev is not None and prev.live():
            self.c04.append('OPEN reuses local id %d of a live stream' % local)
        if arg1 != 0:
            self.c04.append('OPEN with arg1=%d (must be 0)' % arg1)
        if not data.endswith(b'\0') or b'\0' in data[:-1]:
            self.c04.append('OPEN destination is not a single NUL-terminated string: %r' % data[:40])
        dest = data.rstrip(b'\0')
        rid = self._new_remote_id(local)
        s = Stream(len(self.all_streams), local, rid, dest)
        s.session = self.sessions
        s.open_pk = len(self.host_pkts) - 1
        s.open_t = now
        s.opener = getattr(self, 'cur_actor', 0)
        self.all_streams.append(s)
        self.by_local[local] = s
        svc = self._make_service(s, dest)
        if svc is None:
            # unknown service: CLSE(0, local) as protocol.txt says
            s.dev_closed = True
            self._q(s, Pkt(W.A_CLSE, 0, local, kind='refuse'), now)
            self.streams[rid] = s
            self.probe('open_refused')
            return
        self.streams[rid] = s
        s.svc = svc
        od = self.spec.get('open_delay')
        self.opens_seen = getattr(self, 'opens_seen', 0) + 1
        if od and od.get('nth') == self.opens_seen - 1:
            # a busy device: this OPEN is answered late (after the host may have given up), not never; whatever else it is asked
            # meanwhile is answered after that, too
            self.busy_until = now + od['delay']
            self._q(s, Pkt(W.A_OKAY, rid, local, kind='open_okay'), now)
            self.probe('late_open_okay')
        else:
            self._q(s, Pkt(W.A_OKAY, rid, local, kind='open_okay'), now)
        svc.start(now)

    def _find(self, local, remote, what):
        s = self.streams.get(remote)
        if s is None or s.local != local:
            cand = self.by_local.get(local)
            if cand is not None and cand.session == self.sessions:
                self.c04.append('%s on stream local=%d carries remote id %d, device announced %d' % (what, local, remote, cand.remote))
            else:
                self.c04.append('%s for unknown stream (arg0=%d, arg1=%d)' % (what, local, remote))
            return None
        return s

    def _on_okay(self, local, remote, data, now):
        s = self._find(local, remote, 'OKAY')
        if s is None:
            return
        if s.host_clse_count:
            self.c04.append('OKAY on local id %d after the host closed it' % local)
        if data:
            self.c04.append('OKAY carries %d payload bytes' % len(data))
        s.host_okays += 1
        if s.read_unacked <= 0:
            self.c04.append('OKAY on stream %d without a delivered, unacknowledged device WRITE' % local)
        else:
            s.read_unacked -= 1
        s.await_okay = False

    def _on_wrte(self, local, remote, data, now):
        s = self._find(local, remote, 'WRTE')
        if s is None:
            return
        if s.host_clse_count:
            self.c04.append('WRTE on local id %d after the host closed it' % local)
        if s.host_wrte_outstanding:
            self.c04.append('second WRTE on stream %d before the device OKAY for the previous one was read' % local)
        if len(data) > self.maxdata:
            self.c04.append('WRTE payload %d exceeds device maxdata %d' % (len(data), self.maxdata))
            self.probe('wrte_over_maxdata')
        s.host_wrte_outstanding = True
        s.recv_payloads.append(data)
        if s.dev_clse_emitted or s.host_closed:
            return   # adbd ignores data for a closed stream (no OKAY)
        if s.svc is not None:
            s.svc.on_data(data, now)
        else:
            self._q(s, Pkt(W.A_OKAY, s.remote, s.local, kind='ack'), now)

    def ack_host_wrte(self, s, now, lat=None, front_of=None):
        """Queue the OKAY for the host WRTE just received. `front_of`: a list of packets queued by
        the service in reaction to this WRTE that the OKAY may legally follow instead of precede."""
        self._q(s, Pkt(W.A_OKAY, s.remote, s.local, kind='ack'), now, lat)

    def _on_clse(self, local, remote, data, now):
        s = self.streams.get(remote)
        if s is None or s.local != local:
            # CLSE(local, 0)? or swapped ids
            cand = self.by_local.get(local)
            if cand is not None and cand.session == self.sessions and remote != cand.remote:
                self.c04.append('CLSE on stream local=%d carries remote id %d, device announced %d' % (local, remote, cand.remote))
            else:
                self.c04.append('CLSE for unknown stream (arg0=%d, arg1=%d)' % (local, remote))
            return
        s.host_clse_count += 1
        if s.host_clse_count > 1:
            self.c04.append('more than one CLSE on stream %d' % local)
            return
        s.host_closed = True
        if not s.dev_closed:
            # host-initiated close: cancel what is pending and answer with CLSE (adbd does)
            keep = None
            if self.spec.get('inflight_on_close') and s.outq and s.outq[0].cmd == W.A_WRTE and not s.await_okay and s.outq[0].ready <= now:
                # that WRITE left before the host's CLOSE arrived: it is already on the wire
                if self.tape.draw('device', 2, weights=[1, 2]) == 1:
                    keep = s.outq[0]
                    self.probe('wrte_in_flight_at_host_close')
            for p in list(s.outq):
                if p.cmd == W.A_WRTE and p is not keep:
                    s.outq.remove(p)
            s.await_okay = False
            self.q_close(s, now, zero=self.clse_zero)
            self.probe('host_initiated_close')
        if s.svc is not None:
            s.svc.on_host_close(now)

    # -- services ------------------------------------------------------------------------
    def _make_service(self, s, dest):
        if any(dest.startswith(p.encode()) for p in self.spec.get('refuse', ())):
            return None      # service not supported on this device: CLSE(0, local)
        if dest.startswith(b'shell:') or dest.startswith(b'exec:'):
            return ShellService(self, s, dest.split(b':', 1)[1])
        if dest == b'root:':
            return ShellService(self, s, b'__root__')
        if dest.startswith(b'reboot:'):
            return RebootService(self, s)
        if dest == b'sync:':
            return SyncService(self, s)
        return None

    # -- device -> host ------------------------------------------------------------------
    def _eligible(self, now, future=False):
        """Heads of queues that may go on the wire (future=True: ignoring their ready time)."""
        out = []
        if self.broken:
            return out
        if self.stalled and self.stall.get('kind') != 'trickle':
            return out
        if self.connq:
            p = self.connq[0]
            if future or p.ready <= now:
                out.append((None, p))
        for s in self.streams.values():
            if not s.outq:
                continue
            p = s.outq[0]
            if p.cmd == W.A_WRTE and s.await_okay:
                continue
            if p.cmd == W.A_CLSE and p.kind == 'clse' and s.await_okay and self.close_mode == 'strict' and not s.host_closed:
                continue
            if future or p.ready <= now:
                out.append((s, p))
        return out

    def _check_stall(self, now):
        if self.stall and not self.stalled and self.emitted >= self.stall.get('after_pkts', 1 << 30):
            self.stalled = True
            self.stall_next = now + self.stall.get('interval', 0.5)
            self.probe('stall_began')
            self.stall_began_at = now

    def has_ready(self, now):
        self._check_stall(now)
        if self._filler_due(now):
            return True
        return bool(self._eligible(now))

    def next_event_time(self, now):
        self._check_stall(now)
        ts = [p.ready for (_, p) in self._eligible(now, future=True)]
        ft = self._filler_time()
        if ft is not None:
            ts.append(ft)
        if not ts:
            return None
        return max(now, min(ts))

    # stall generator (C11): after `after_pkts` packets the real traffic stops
    def _filler_time(self):
        if not self.stalled:
            return None
        if self.stall.get('kind') in ('silence', 'eof', 'trickle'):
            return None
        return self.stall_next

    def _filler_due(self, now):
        t = self._filler_time()
        return t is not None and t <= now

    def _make_filler(self, now):
        st = self.stall
        kind = st['kind']
        self.filler_n += 1
        self.stall_next = now + st.get('interval', 0.5)
        live = [s for s in self.streams.values() if not s.host_closed]
        tgt = live[-1] if live else None
        if kind == 'foreign':
            # traffic for another (nonexistent here) stream of the same connection
            return Pkt(W.A_WRTE if self.filler_n % 2 else W.A_OKAY, 0x7000 + (self.filler_n % 3), 0x6000 + (self.filler_n % 2), b'x' * (self.filler_n % 5) if self.filler_n % 2 else b'', kind='filler')
        if kind == 'unexpected':
            if tgt is None and self.connected:
                # the host has closed its stream and waits for the device's CLSE: WRITEs that were on their way keep coming instead
                closing = [s for s in self.streams.values() if s.host_closed and not s.dev_clse_emitted and s.session == self.sessions]
                if closing:
                    self.probe('filler_wrte_after_host_close')
                    return Pkt(W.A_WRTE, closing[-1].remote, closing[-1].local, b'late%d\n' % self.filler_n, kind='filler')
            if tgt is None or not self.connected:
                return Pkt(W.A_OKAY, 0x7000, 0x6000, kind='filler')
            return Pkt(st.get('cmdword', W.A_OKAY), tgt.remote, tgt.local, kind='filler')
        if kind == 'endless':
            if tgt is None:
                return Pkt(W.A_OKAY, 0x7000, 0x6000, kind='filler')
            p = Pkt(W.A_WRTE, tgt.remote, tgt.local, b'endless%d\n' % self.filler_n, kind='filler_own')
            p.sid = tgt.sid
            return p
        return None

    def pop_packet(self, now):
        self._check_stall(now)
        if self._filler_due(now):
            p = self._make_filler(now)
            if p is not None:
                self.probe('filler_' + self.stall['kind'])
                p.seq = self.total_emitted
                self.total_emitted += 1
                p.raw = W.pack(p.cmd, p.arg0, p.arg1, p.data)
                return p
        el = self._eligible(now)
        if not el:
            return None
        i = self.tape.draw('device', len(el)) if len(el) > 1 else 0
        if len(el) > 1:
            self.probe('adversary_choice')
        s, p = el[i]
        if s is None:
            self.connq.popleft()
        else:
            s.outq.popleft()
            if p.cmd == W.A_WRTE:
                s.await_okay = True
                s.sent_payloads.append(p.data)
                if p.kind == 'fail' and self.fail_on_wire_at is None:
                    self.fail_on_wire_at = now
            elif p.cmd == W.A_CLSE:
                s.dev_clse_emitted = True
        p.seq = self.total_emitted
        self.total_emitted += 1
        self.emitted += 1
        raw = W.pack(p.cmd, p.arg0, p.arg1, p.data)
        if self.spec.get('junk_check_on_empty') and not p.data and p.cmd in (W.A_OKAY, W.A_CLSE):
            # the checksum word of a packet without payload carries whatever was left in the device's buffer (nothing to check against)
            raw = raw[:16] + struct.pack('<I', int(self.spec['junk_check_on_empty']) & 0xFFFFFFFF) + raw[20:]
            self.probe('junk_checksum_word_on_empty_packet')
        c = self.corrupt
        if c and not c.get('_done') and (c.get('at') == p.seq if not c.get('noise_only') else (p.kind == 'noise' and p.seq >= c.get('at', 0))):
            c['_done'] = True
            raw = self._corrupt(raw, p, c)
        p.raw = raw
        sc = self.spec.get('stale_cnxn')
        if sc and self.connected and p.kind != 'noise' and not self.sess.get('stale_cnxn_done') and self.sessions >= sc.get('session_min', 1) and self.emitted >= sc.get('after', 1) + 1:
            # the answer to a CNXN of an earlier life of this connection (the host gave up on it and connected again over a link that
            # keeps what is queued, as USB does) arrives now, in the middle of the new session
            self.sess['stale_cnxn_done'] = True
            banner = self.spec.get('banner', 'device::ro.product.name=sim;ro.product.model=SimAdb;features=shell_v2,cmd').encode()
            self.connq.append(Pkt(W.A_CNXN, int(self.spec.get('version', W.A_VERSION)), self.maxdata, banner, ready=now, kind='noise'))
            self.probe('stale_cnxn_mid_session')
        ne = self.spec.get('noise_every')
        if ne and self.connected and p.kind != 'noise' and self.emitted % ne == 0:
            # traffic for a stream nobody is reading (a closed stream's late packet, ids of another life of the connection)
            self.noise_n = getattr(self, 'noise_n', 0) + 1
            ncl = self.spec.get('noise_clse_locals')
            if ncl:
                # late CLSEs for streams this host object is not reading (ids of an earlier life of the connection, say)
                nz = Pkt(W.A_CLSE, 0x7300 + self.noise_n % 5, int(ncl[self.noise_n % len(ncl)]), b'', ready=now, kind='noise')
                self.probe('noise_clse')
            else:
                nz = Pkt(W.A_OKAY if self.noise_n % 2 else W.A_WRTE, 0x7100 + self.noise_n % 3, 0x6100 + self.noise_n % 2, b'' if self.noise_n % 2 else b'late', ready=now, kind='noise')
            self.connq.append(nz)
            self.probe('noise_packet')
        return p

    def _corrupt(self, raw, p, c):
        b = bytearray(raw)
        kind = c['kind']
        if kind in ('byte', 'bit'):
            if len(b) <= W.HEADER:
                p.note = 'corrupt-skipped-empty'
                return raw
            off = W.HEADER + (c.get('off', 0) % (len(b) - W.HEADER))
            if kind == 'byte':
                b[off] = (b[off] + 1 + c.get('delta', 0) % 255) & 0xFF
            else:
                b[off] ^= 1 << (c.get('bitno', 0) % 8)
            p.note = 'corrupt-payload'
            self.probe('corrupt_payload')
            if sum(p.data) == 0:
                self.probe('corrupt_allzero_payload')
        elif kind == 'cmd':
            w = c.get('word')
            if w is None:
                w = p.cmd ^ (0x20 << (8 * (c.get('off', 0) % 4)))
            b[0:4] = struct.pack('<I', w)
            if not c.get('keep_magic'):
                b[20:24] = struct.pack('<I', w ^ 0xFFFFFFFF)
            else:
                self.probe('corrupt_cmd_magic_intact')      # only the command word was damaged in transit: the magic still names the original command
            p.note = 'corrupt-cmd'
            self.probe('corrupt_cmd')
            how = c.get('payload')
            if how and len(b) > W.HEADER:
                if how == 'flip':
                    # the garbage does not stop at the command word: the payload no longer matches its checksum either
                    off = W.HEADER + (c.get('off', 0) % (len(b) - W.HEADER))
                    b[off] ^= 1 << (c.get('bitno', 0) % 8)
                    self.probe('corrupt_cmd_and_payload')
                else:
                    # ... or the announced payload never arrives (the device died after the header)
                    del b[W.HEADER:]
                    self.stall = {'kind': 'silence', 'after_pkts': 0}
                    self.stalled = True
                    self.probe('corrupt_cmd_payload_withheld')
        if p.kind == 'noise':
            self.probe('corrupt_noise_packet')
        return bytes(b)

    def on_packet_read(self, p, now):
        """The host has consumed the last byte of p."""
        s = None
        if p.sid is not None and p.sid < len(self.all_streams):
            s = self.all_streams[p.sid]
        if s is None:
            return
        if p.kind == 'filler_own':
            s.read_unacked += 1
            return
        if p.cmd == W.A_WRTE:
            s.read_payloads.append(p.data)
            if not s.host_closed:
                s.read_unacked += 1       # (a WRITE that crossed the host's CLOSE is owed no acknowledgement)
            if p.kind == 'fail' and not any(q.kind == 'fail' for q in s.outq):
                self.fail_fully_read = True
        elif p.cmd == W.A_OKAY:
            if p.kind == 'ack':
                s.host_wrte_outstanding = False
            elif p.kind == 'open_okay':
                s.open_okay_read = True
        elif p.cmd == W.A_CLSE:
            s.dev_clse_read = True

    # ---------------------------------------------------------------------------------
    def summary_streams(self):
        return [{'local': s.local, 'remote': s.remote, 'dest': s.dest[:40].decode('latin1'), 'wrtes': len(s.sent_payloads),
                 'host_wrtes': len(s.recv_payloads), 'host_clse': s.host_clse_count, 'dev_clse': s.dev_clse_emitted} for s in self.all_streams]


# ----------------------------------------------------------------------------------------
class ShellService(object):
    def __init__(self, dev, s, command):
        self.dev = dev
        self.s = s
        self.command = command

    def start(self, now):
        dev = self.dev
        key = self.command.decode('utf8', 'replace')
        c = dev.cmds.get(key)
        if c is None:
            c = {'content': {'size': 0}, 'cuts': []}
            dev.probe('shell_unknown_cmd')
        self.s.cmd_key = key
        if c.get('hang'):
            return    # never answers, never closes
        final = shell_payloads(dev.spec, key)
        self.s.expected_payloads = final
        think = c.get('think')
        for i, p in enumerate(final):
            dev.q_wrte(self.s, p, now, lat=(think[i % len(think)] if think else None))
        if not c.get('no_close'):
            dev.q_close(self.s, now, lat=c.get('exit_delay'))      # the command goes on for a while after its last output
            if c.get('exit_delay'):
                dev.probe('cmd_exits_late')

    def on_data(self, data, now):
        self.dev.ack_host_wrte(self.s, now)

    def on_host_close(self, now):
        pass


class RebootService(object):
    def __init__(self, dev, s):
        self.dev = dev
        self.s = s

    def start(self, now):
        self.dev.probe('reboot')

    def on_data(self, data, now):
        self.dev.ack_host_wrte(self.s, now)

    def on_host_close(self, now):
        pass


class SyncService(object):
    """SYNC.TXT service over the in-memory filesystem."""

    def __init__(self, dev, s):
        self.dev = dev
        self.s = s
        self.buf = bytearray()
        self.state = 'idle'       # idle | send | drain | dead
        self.cur = None
        self.reply_n = 0
        self.host_wrtes = 0

    def start(self, now):
        pass

    def on_host_close(self, now):
        if self.state == 'send' and self.cur is not None:
            self.cur['aborted'] = True
        self.state = 'dead'

    # replies -----------------------------------------------------------------------------
    def _reply(self, data, now, boundaries=(), kind='wrte', lat=None):
        dev = self.dev
        plans = dev.spec.get('cut_plans') or [{'policy': 'whole'}]
        plan = dict(plans[self.reply_n % len(plans)])
        plan['seed'] = (plan.get('seed', 0) * 1000003 + self.reply_n * 7919 + self.s.sid) & 0xFFFFFFFF
        self.reply_n += 1
        limit = min(dev.maxdata, W.HOST_MAXDATA)
        pieces = cut_by_plan(data, plan, limit, boundaries)
        # reach probes: did a record header get split across WRTEs?
        pos = 0
        ends = []
        for p in pieces[:-1]:
            pos += len(p)
            ends.append(pos)
        hdrlen = self.cur_hdrlen
        if ends:
            import bisect
            for b in [0] + list(boundaries):
                j = bisect.bisect_right(ends, b)
                if j < len(ends) and ends[j] < b + hdrlen:
                    dev.probe('sync_header_split_across_wrte')
                    break
        if len(pieces) > 1:
            dev.probe('sync_reply_multi_wrte')
        ew = dev.spec.get('empty_wrte_in_sync')
        for j, p in enumerate(pieces):
            dev.q_wrte(self.s, p, now, lat=lat, kind=kind)
            if ew and j % ew == ew - 1 and j + 1 < len(pieces):
                # a WRITE without payload between two WRITEs of a sync reply (legal, acknowledged like any other)
                dev.q_wrte(self.s, b'', now, lat=lat, kind=kind)
                dev.probe('sync_empty_wrte_between_pieces')

    # requests ----------------------------------------------------------------------------
    def on_data(self, data, now):
        dev = self.dev
        s = self.s
        self.host_wrtes += 1
        self.buf += data
        n_before = len(s.outq)
        self._parse(now)
        produced = list(s.outq)[n_before:]
        # The OKAY for this host WRITE and anything the service said in reaction to it race
        # (the ack is sent when the service has taken the data). Order from the scenario.
        okay = Pkt(W.A_OKAY, s.remote, s.local, kind='ack')
        late = dev.spec.get('ack_delay')
        if late and late.get('nth') == self.host_wrtes - 1:
            # the service is slow to take this WRITE (e.g. flushing to slow storage): its OKAY comes late, not never
            for p in list(s.outq)[n_before:]:
                s.outq.remove(p)
            s.last_ready = max([now] + [q.ready for q in s.outq])
            dev._q(s, okay, now, lat=late['delay'])
            for p in produced:
                dev._q(s, p, now)
            dev.probe('late_okay')
            return
        rbo = int(dev.spec.get('reply_before_okay', 0) or 0)
        if produced and rbo > 0 and not any(p.kind == 'fail' for p in produced):
            # the service's reply overtakes the ack of the request: up to `rbo` reply WRITEs go out before the OKAY
            for p in produced:
                s.outq.remove(p)
            s.last_ready = max([now] + [q.ready for q in s.outq])
            k = 0
            while k < min(rbo, len(produced)) and produced[k].cmd == W.A_WRTE:
                k += 1          # only WRITEs overtake the ack: a CLSE is the last thing the device says on a stream
            for p in produced[:k]:
                dev._q(s, p, now)
            dev._q(s, okay, now)
            for p in produced[k:]:
                dev._q(s, p, now)
            dev.probe('reply_before_okay')
            if min(rbo, len(produced)) >= 2:
                dev.probe('two_replies_before_okay')
        elif produced and any(p.kind == 'fail' for p in produced) and dev.spec.get('fail_before_okay'):
            # FAIL first, then the OKAY
            for p in produced:
                s.outq.remove(p)
            s.last_ready = max([now] + [q.ready for q in s.outq])
            for p in produced:
                if p.kind == 'fail':
                    dev._q(s, p, now)
            dev._q(s, okay, now)
            for p in produced:
                if p.kind != 'fail':
                    dev._q(s, p, now)
            dev.probe('fail_before_okay')
        else:
            # OKAY first (the common order)
            for p in produced:
                s.outq.remove(p)
            s.last_ready = max([now] + [q.ready for q in s.outq])
            dev._q(s, okay, now)
            for p in produced:
                dev._q(s, p, now, lat=(p.ready - now if p.kind == 'fail' and p.ready > now else None))
        if any(p.kind == 'fail' for p in produced):
            dev.probe('push_fail_sent')

    def _parse(self, now):
        dev = self.dev
        while True:
            if self.state == 'dead':
                self.buf.clear()
                return
            if len(self.buf) < 8:
                return
            idw, ln = struct.unpack('<II', self.buf[:8])
            if self.state in ('send', 'drain'):
                if idw == W.ID_DATA:
                    if ln > W.SYNC_DATA_MAX:
                        dev.notes.append('sync DATA record of %d bytes exceeds 64 KiB' % ln)
                        self.cur['oversize_data'] = ln
                    if len(self.buf) < 8 + ln:
                        return
                    chunk = bytes(self.buf[8:8 + ln])
                    del self.buf[:8 + ln]
                    self._on_send_data(chunk, now)
                    continue
                if idw == W.ID_DONE:
                    del self.buf[:8]
                    self._on_send_done(ln, now)
                    continue
                dev.c04.append('sync: unexpected id %s inside SEND' % W.SYNC_NAMES.get(idw, hex(idw)))
                self.state = 'dead'
                return
            # idle: a request with a path
            if idw not in (W.ID_LIST, W.ID_STAT, W.ID_RECV, W.ID_SEND, W.ID_QUIT):
                dev.c04.append('sync: unexpected request id %s' % W.SYNC_NAMES.get(idw, hex(idw)))
                self.state = 'dead'
                return
            if ln > 1024:
                dev.notes.append('sync path length %d > 1024' % ln)
            if len(self.buf) < 8 + ln:
                return
            arg = bytes(self.buf[8:8 + ln])
            del self.buf[:8 + ln]
            self.cur_hdrlen = 8
            if idw == W.ID_QUIT:
                self.state = 'dead'
                dev.q_close(self.s, now)
            elif idw == W.ID_STAT:
                self._do_stat(arg, now)
            elif idw == W.ID_LIST:
                self._do_list(arg, now)
            elif idw == W.ID_RECV:
                self._do_recv(arg, now)
            elif idw == W.ID_SEND:
                self._do_send(arg, now)

    def _path(self, arg):
        return arg.decode('utf8', 'surrogateescape')

    def _do_stat(self, arg, now):
        dev = self.dev
        path = self._path(arg)
        self.s.sync_reqs = getattr(self.s, 'sync_reqs', []) + [('STAT', path)]
        ov = dev.spec.get('stat_override', {}).get(path)
        if ov is not None:
            mode, size, mtime = ov
        else:
            f = dev.fs.get(path)
            if f is None:
                mode = size = mtime = 0
            else:
                mode, size, mtime = f['mode'], (f['content']['size'] if 'content' in f else len(f['data'])) & 0xFFFFFFFF, f['mtime']
        self.cur_hdrlen = 16
        bad = dev.spec.get('bad_record', {}).get('stat')
        if bad:
            self._reply(struct.pack('<IIII', W.mkid(bad.encode()), 0, 0, 0), now)
            return
        self._reply(W.sync_stat(mode, size, mtime), now)

    def _do_list(self, arg, now):
        dev = self.dev
        path = self._path(arg)
        self.s.sync_reqs = getattr(self.s, 'sync_reqs', []) + [('LIST', path)]
        out = bytearray()
        bounds = []
        for ent in dev.dirs.get(path, []):
            name = bytes.fromhex(ent[0])
            bounds.append(len(out))
            out += W.sync_dent(ent[1], ent[2], ent[3], name)
        bounds.append(len(out))
        bad = dev.spec.get('bad_record', {}).get('list')
        if bad:
            out += struct.pack('<IIIII', W.mkid(bad.encode()), 0, 0, 0, 0)
        else:
            out += W.sync_list_done()
        self.cur_hdrlen = 20
        self._reply(bytes(out), now, boundaries=bounds)

    def _do_recv(self, arg, now):
        dev = self.dev
        path = self._path(arg)
        self.s.sync_reqs = getattr(self.s, 'sync_reqs', []) + [('RECV', path)]
        data = dev.file_bytes(path)
        rf = dev.spec.get('recv_fail', {}).get(path)
        if data is None:
            rf = rf or {'at': 'start', 'reason': b'No such file or directory'.hex()}
            data = b''
        f = dev.fs.get(path, {})
        sizes = f.get('records') or [W.SYNC_DATA_MAX]
        out = bytearray()
        bounds = []
        i = 0
        k = 0
        recs = 0
        nrec_fail = None
        if rf and rf['at'] == 'mid':
            nrec_fail = rf.get('n', 1)
        while i < len(data):
            if nrec_fail is not None and recs >= nrec_fail:
                break
            sz = max(1, min(sizes[k % len(sizes)], W.SYNC_DATA_MAX))
            k += 1
            ee = f.get('empty_every')
            if ee and recs % ee == ee - 1:
                # a DATA record without data (a read on the device that returned nothing yet) in the middle of the file
                bounds.append(len(out))
                out += W.sync_data(b'')
                dev.probe('recv_empty_data_record')
            chunk = data[i:i + sz]
            i += len(chunk)
            bounds.append(len(out))
            out += W.sync_data(chunk)
            recs += 1
        bounds.append(len(out))
        rc = dev.spec.get('recv_close', {}).get(path)
        if rc is not None:
            # the sync service dies in the middle of the transfer: some DATA records, then CLSE, no DONE / FAIL
            keep = bounds[min(rc.get('n', 1), len(bounds) - 1)]
            self.cur_hdrlen = 8
            if keep:
                self._reply(bytes(out[:keep]), now, boundaries=[b for b in bounds if b < keep])
            self.state = 'dead'
            dev.q_close(self.s, now)
            dev.probe('recv_closed_mid_transfer')
            return
        if rf and rf['at'] == 'start':
            out = bytearray()
            bounds = []
        bad = dev.spec.get('bad_record', {}).get('recv')
        if rf:
            if rf.get('empty_data_first'):
                out += W.sync_data(b'')      # a DATA record without data (a read that returned nothing) precedes the FAIL
                dev.probe('recv_empty_data_before_fail')
            out += W.sync_fail(bytes.fromhex(rf['reason']))
            dev.probe('recv_fail_' + rf['at'])
            self.cur_hdrlen = 8
            self._reply(bytes(out), now, boundaries=bounds, kind='wrte')
            # older adbd keeps serving the sync connection after a failed RECV; newer ones leave the service loop and close the stream
            if rf.get('then_close'):
                self.state = 'dead'
                dev.q_close(self.s, now)
                dev.probe('recv_fail_then_close')
            return
        if bad == 'STAT+':
            out += struct.pack('<IIII', W.mkid(b'STAT'), 33188, 4096, 1500000000)
        elif bad:
            out += struct.pack('<II', W.mkid(bad.encode()), 0)
        else:
            out += W.sync_done(0)
        self.cur_hdrlen = 8
        self._reply(bytes(out), now, boundaries=bounds)

    # push ------------------------------------------------------------------------------
    def _do_send(self, arg, now):
        dev = self.dev
        try:
            path_b, mode_b = arg.rsplit(b',', 1)
            mode = int(mode_b)
            path = self._path(path_b)
        except ValueError:
            dev.c04.append('sync SEND argument %r is not "<path>,<mode>"' % arg[:60])
            path, mode = self._path(arg), -1
        self.cur = {'path': path, 'mode': mode, 'data': bytearray(), 'datas': [], 't0': now, 'stream': self.s.sid, 'fail': None, 'done': False}
        dev.push_attempts.append(self.cur)
        self.state = 'send'
        self.ndata = 0
        pf = self._fail_spec(path)
        if pf and pf['at'] == 'send':
            self._fail(pf, now)

    def _fail_spec(self, path):
        pf = self.dev.spec.get('push_fail')
        if not pf:
            return None
        if pf.get('path') not in (None, path):
            return None
        return pf

    def _fail(self, pf, now):
        dev = self.dev
        reason = bytes.fromhex(pf.get('reason', b'Permission denied'.hex()))
        self.cur['fail'] = reason
        self.state = 'drain'
        plans = dev.spec.get('cut_plans') or [{'policy': 'whole'}]
        plan = dict(plans[self.reply_n % len(plans)])
        self.reply_n += 1
        limit = min(dev.maxdata, W.HOST_MAXDATA)
        pieces = cut_by_plan(W.sync_fail(reason), plan if pf.get('cut_reason') else {'policy': 'whole'}, limit)
        lat = pf.get('delay', None)
        for j, p in enumerate(pieces):
            dev.q_wrte(self.s, p, now, lat=(lat if j == 0 else None), kind='fail')

    def _on_send_data(self, chunk, now):
        self.ndata += 1
        if self.state == 'drain':
            return
        self.cur['data'] += chunk
        self.cur['datas'].append(len(chunk))
        pf = self._fail_spec(self.cur['path'])
        if pf and pf['at'] == 'data' and self.ndata >= pf.get('n', 1):
            self._fail(pf, now)

    def _on_send_done(self, mtime, now):
        dev = self.dev
        if self.state == 'drain':
            # adbd: after a failure, drain until DONE, then close the socket
            self.cur['drained'] = True
            self.state = 'dead'
            dev.q_close(self.s, now)
            dev.probe('push_fail_drained_and_closed')
            return
        pf = self._fail_spec(self.cur['path'])
        if pf and pf['at'] == 'done':
            self._fail(pf, now)
            self.cur['drained'] = True
            self.state = 'dead'
            dev.q_close(self.s, now)
            return
        pc = dev.spec.get('push_close')
        if pc and pc.get('path') in (None, self.cur['path']):
            # the sync service dies after it has taken DONE (storage gone, adbd restarting): no status record, just CLSE
            self.cur['died'] = True
            self.state = 'dead'
            dev.q_close(self.s, now)
            dev.probe('push_closed_without_status')
            return
        self.cur['mtime'] = mtime
        self.cur['t1'] = now
        self.cur['done'] = True
        data = bytes(self.cur['data'])
        self.cur['data'] = data
        dev.fs[self.cur['path']] = {'mode': self.cur['mode'], 'mtime': mtime, 'data': data}
        dev.pushed.append(self.cur)
        self.state = 'idle'
        self.cur_hdrlen = 8
        bad = dev.spec.get('bad_record', {}).get('send')
        if bad == 'STAT+':
            # a complete STAT record (id, mode, size, mtime) where a status is due
            self._reply(struct.pack('<IIII', W.mkid(b'STAT'), 33188, 4096, 1500000000), now, kind='status')
        elif bad:
            self._reply(struct.pack('<II', W.mkid(bad.encode()), 0), now, kind='status')
        else:
            self._reply(W.sync_okay(), now, kind='status')
        self.cur = None


def android_pubkey_numbers(blob_b64):
    """Decode the Android RSAPublicKey struct (mincrypt): -> (n, e) or raise ValueError."""
    raw = base64.b64decode(blob_b64)
    if len(raw) != 4 + 4 + 256 + 256 + 4:
        raise ValueError('blob length %d' % len(raw))
    words, _n0inv = struct.unpack('<II', raw[:8])
    if words != 64:
        raise ValueError('len field %d' % words)
    n = int.from_bytes(raw[8:8 + 256], 'little')
    e = struct.unpack('<I', raw[-4:])[0]
    return n, e
