"""Builds the simulated USB bus (fake usb1 objects) and wires the ADB device handle to the Link."""
from . import fakeusb1 as U
from .lib import load

ADB_IF = (0xFF, 0x42, 0x01)


class UsbBackend(object):
    """Behaviour of the opened device handle: endpoints, transfers, injected libusb errors."""

    def __init__(self, run, waiter, spec, in_ep, out_ep, iface):
        self.run = run
        self.waiter = waiter
        self.spec = spec
        self.in_ep = in_ep
        self.out_ep = out_ep
        self.iface = iface
        self.ncall = 0
        self.plan = {f['at']: f for f in spec.get('faults', [])}
        self.fired = []
        self.seen = {}
        self.transfers = []      # (kind, endpoint, length, timeout_ms, outcome)

    def fault(self, name):
        i = self.ncall
        self.ncall += 1
        if getattr(self, 'unplugged', False):
            raise U.USBErrorNoDevice()       # the device is gone: every libusb call fails with LIBUSB_ERROR_NO_DEVICE
        f = self.plan.get(i)
        if f is None:
            # faults addressed by call name: {'on': 'release', 'nth': 0, 'err': ...}
            self.seen[name] = self.seen.get(name, 0) + 1
            for g in self.spec.get('named_faults', []):
                if g['on'] == name and g.get('nth', 0) == self.seen[name] - 1 and not g.get('_done'):
                    g['_done'] = True
                    self.fired.append((i, name, g['err']))
                    self.run.link.faults_fired.append((i, 'usb_err_' + g['err'], name))
                    raise U.ERRORS[g['err']]()
        if f is not None and (f.get('on') in (None, name)):
            del self.plan[i]
            if f.get('unplug'):
                self.unplugged = True
            self.fired.append((i, name, f['err']))
            self.run.link.faults_fired.append((i, 'usb_err_' + f['err'], name))
            raise U.ERRORS[f['err']]()

    def bulk_read(self, handle, endpoint, length, timeout):
        link = self.run.link
        try:
            self.fault('bulkRead')
        except U.USBError as e:
            self.transfers.append(('r', endpoint, length, timeout, type(e).__name__))
            raise
        if endpoint != self.in_ep:
            self.transfers.append(('r', endpoint, length, timeout, 'USBErrorNotFound'))
            raise U.USBErrorNotFound()
        if not link.connected:
            raise U.USBErrorNoDevice()
        t = None if timeout == 0 else timeout / 1000.0
        try:
            data = link.sync_read(length, t, self.waiter)
        except link.exc.TcpTimeoutException:
            self.transfers.append(('r', endpoint, length, timeout, 'USBErrorTimeout'))
            raise U.USBErrorTimeout()
        except (ConnectionResetError, BrokenPipeError, OSError):
            self.transfers.append(('r', endpoint, length, timeout, 'USBErrorIO'))
            raise U.USBErrorIO()
        self.transfers.append(('r', endpoint, length, timeout, len(data)))
        return bytearray(data)

    def bulk_write(self, handle, endpoint, data, timeout):
        link = self.run.link
        try:
            self.fault('bulkWrite')
        except U.USBError as e:
            self.transfers.append(('w', endpoint, len(data), timeout, type(e).__name__))
            raise
        if endpoint != self.out_ep:
            self.transfers.append(('w', endpoint, len(data), timeout, 'USBErrorNotFound'))
            raise U.USBErrorNotFound()
        if not link.connected:
            raise U.USBErrorNoDevice()
        t = None if timeout == 0 else timeout / 1000.0
        try:
            k = link.sync_write(data, t, self.waiter)
        except link.exc.TcpTimeoutException:
            self.transfers.append(('w', endpoint, len(data), timeout, 'USBErrorTimeout'))
            raise U.USBErrorTimeout()
        except (ConnectionResetError, BrokenPipeError, OSError):
            self.transfers.append(('w', endpoint, len(data), timeout, 'USBErrorIO'))
            raise U.USBErrorIO()
        self.transfers.append(('w', endpoint, len(data), timeout, k))
        return k


class _Handle(U.USBDeviceHandle):
    """claimInterface on the simulated ADB device opens the Link session."""

    def claimInterface(self, interface):
        U.USBDeviceHandle.claimInterface(self, interface)
        b = self._b()
        if b is not None:
            b.run.link.connect(None, b.waiter.actor())
            b.claimed_iface = interface

    def close(self):
        U.USBDeviceHandle.close(self)
        b = self._b()
        if b is not None and b.run.link.connected:
            b.run.link.close(b.waiter.actor())


class _Device(U.USBDevice):
    def open(self):
        U.CALLS.append(('open', self._serial))
        if self.backend is not None:
            self.backend.fault('open')
        h = _Handle(self)
        self.handles.append(h)
        return h


def build_bus(scn, run, waiter):
    """usb spec: {'devices': [{'serial','bus','ports','adb': bool, 'adb_if': n, 'in_ep','out_ep','decoy_first': bool, 'kernel_driver': bool}], 'target': index}"""
    spec = scn.get('usb', {})
    devs = []
    target = spec.get('target', 0)
    backend = None
    for i, d in enumerate(spec.get('devices') or [{'serial': 'SIM0001', 'bus': 1, 'ports': [2], 'adb': True}]):
        settings = []
        in_ep = d.get('in_ep', 0x81)
        out_ep = d.get('out_ep', 0x02)
        adb_if = d.get('adb_if', 1)
        decoy = U.USBInterfaceSetting(0, 0x08, 0x06, 0x50, [U.USBEndpoint(0x83), U.USBEndpoint(0x04)])      # mass storage
        vendor_other = U.USBInterfaceSetting(2, 0xFF, 0x42, 0x03, [U.USBEndpoint(0x85), U.USBEndpoint(0x06)])  # fastboot-like: same class/subclass, other protocol
        eps = [U.USBEndpoint(in_ep), U.USBEndpoint(out_ep)]
        if d.get('out_first'):
            eps = eps[::-1]
        adb = U.USBInterfaceSetting(adb_if, 0xFF, 0x42, 0x01, eps)
        if d.get('adb', True):
            settings = [decoy, vendor_other, adb] if d.get('decoy_first', True) else [adb, decoy, vendor_other]
        else:
            settings = [decoy, vendor_other]
        dev = _Device(d.get('bus', 1), d.get('ports', [i + 1]), d.get('serial', 'SIM%04d' % i), settings)
        if d.get('kernel_driver'):
            dev.kernel_driver = (adb_if,)
        if i == target:
            backend = UsbBackend(run, waiter, spec, in_ep, out_ep, adb_if)
            dev.backend = backend
        devs.append(dev)
    U.reset(devs)
    run.usb = backend
    return backend


def make_usb_transport(scn, run, waiter):
    L = load()
    backend = build_bus(scn, run, waiter)
    spec = scn.get('usb', {})
    UsbTransport = L['usb_transport'].UsbTransport
    find = spec.get('find', {'by': 'first'})
    kw = {'default_transport_timeout_s': spec.get('default_tt')}
    if find['by'] == 'serial':
        kw['serial'] = find['value']
    elif find['by'] == 'port_path':
        kw['port_path'] = find['value']
    tr = UsbTransport.find_adb(**kw)
    return tr, backend


def make_device_obj(scn, run, L):
    """AdbDeviceUsb(serial=..., port_path=...) — the public class (find_adb inside)."""
    spec = scn.get('usb', {})
    find = spec.get('find', {'by': 'first'})
    o = scn.get('object', {})
    kw = {'default_transport_timeout_s': spec.get('default_tt'), 'banner': o.get('banner', 'simhost')}
    if find['by'] == 'serial':
        kw['serial'] = find['value']
    elif find['by'] == 'port_path':
        kw['port_path'] = find['value']
    return L['adb_device'].AdbDeviceUsb(**kw)
