"""A small model of a kernel TCP endpoint (socket + select modules) and of an asyncio
Transport, so that the *real* TcpTransport / TcpTransportAsync (with real asyncio streams and
async_timeout) run against the device model.

Host -> device bytes pass through a bounded send buffer drained by the peer at an
adversary-chosen rate (short send() counts, BlockingIOError, back-pressure). Device -> host
bytes come from the Link (fragmentation policies, faults).
"""
import asyncio
import errno
import socket as _real_socket

from .lib import load
from .transport import JumpWaiter, SimAbort, SimHang

SHUT_RD, SHUT_WR, SHUT_RDWR = 0, 1, 2


class Pipe(object):
    """The host->device direction: a bounded buffer drained by the peer."""

    def __init__(self, run, spec):
        self.run = run
        self.cap = int(spec.get('sndbuf', 65536))
        self.drain = int(spec.get('drain', 1 << 30))
        self.every = float(spec.get('drain_every', 1e-5))
        self.buf = bytearray()
        self.next_drain = None
        self.kcap = self.cap
        self.refs = []
        self.segs = []          # [bytes, actor] in write order
        self.short_sends = 0
        self.sends = 0
        self.blocked = 0
        self.paused = 0
        self.closed = False

    def pump(self, now):
        link = self.run.link
        while self.buf and self.next_drain is not None and self.next_drain <= now:
            k = min(self.drain, len(self.buf))
            chunk = bytes(self.buf[:k])
            del self.buf[:k]
            # deliver per writer segment so that the device can attribute each OPEN to the actor that wrote it
            off = 0
            while off < k:
                seg = self.segs[0] if self.segs else [k - off, 0]
                m = min(seg[0], k - off)
                link.device.cur_actor = seg[1]
                link.device.on_host_bytes(chunk[off:off + m], self.next_drain)
                off += m
                if self.segs:
                    seg[0] -= m
                    if seg[0] <= 0:
                        self.segs.pop(0)
            link.bytes_written += k
            self.next_drain = self.next_drain + self.every if self.buf else None
            if getattr(self, 'refs', None):
                self.refill(now if self.next_drain is None else self.next_drain)
            if link.kick is not None:
                link.kick()

    def room(self):
        return self.cap - len(self.buf)

    # asyncio's selector transport sends what the kernel takes at once and queues the rest BY REFERENCE
    # (CPython >= 3.12 keeps memoryviews of the caller's buffer); the bytes are copied only when they reach the kernel
    def put_by_reference(self, data, now):
        if not hasattr(self, 'refs'):
            self.refs = []
        mv = memoryview(data).cast('B') if not isinstance(data, bytes) else data
        n = 0
        if not self.refs:
            n = self.put(bytes(mv[:max(0, self.kcap - len(self.buf))]), now) if self.kcap > len(self.buf) else 0
        if n < len(mv):
            self.refs.append(mv[n:])
            self.ref_bytes = getattr(self, 'ref_bytes', 0) + len(mv) - n
            self.backlogged = getattr(self, 'backlogged', 0) + 1
            if len(self.refs) > 20000:
                # a writer that keeps queueing without ever waiting (only a broken one does): bound the model's own cost
                raise SimAbort('asyncio write queue holds %d chunks: the writer never waits for the buffer to drain' % len(self.refs))
        return len(mv)

    def refill(self, now):
        """Move queued references into the kernel buffer as room frees (the copy happens now)."""
        refs = getattr(self, 'refs', None)
        while refs and self.kcap > len(self.buf):
            mv = refs[0]
            k = min(len(mv), self.kcap - len(self.buf))
            self.buf += bytes(mv[:k])
            self.ref_bytes -= k
            if self.next_drain is None:
                self.next_drain = now
            if k < len(mv):
                refs[0] = mv[k:]
            else:
                refs.pop(0)

    def queued(self):
        return len(self.buf) + sum(len(m) for m in getattr(self, 'refs', ()))

    def user_queued(self):
        """Bytes asyncio itself still holds (what Transport.get_write_buffer_size() reports): the kernel's share is not included."""
        return getattr(self, 'ref_bytes', 0)

    def flush(self, now):
        for mv in getattr(self, 'refs', ()):
            self.buf += bytes(mv)
        self.refs = []
        self.ref_bytes = 0
        if self.buf:
            link = self.run.link
            chunk = bytes(self.buf)
            del self.buf[:]
            self.segs = []
            link.device.on_host_bytes(chunk, now)
            link.bytes_written += len(chunk)
        self.next_drain = None

    def put(self, data, now):
        k = min(len(data), self.room())
        if k:
            self.buf += data[:k]
            if self.next_drain is None:
                self.next_drain = now
        return k

    def next_time(self):
        return self.next_drain if self.buf else None


class SimSocket(object):
    def __init__(self, world, timeout):
        self.world = world
        self._timeout = timeout
        self.closed = False
        self.shut = False
        self.closes = 0

    # -- modes -------------------------------------------------------------------------------
    def settimeout(self, t):
        self._timeout = t

    def gettimeout(self):
        return self._timeout

    def setblocking(self, flag):
        self._timeout = None if flag else 0.0

    def fileno(self):
        return 7

    def _check(self):
        if self.closed:
            raise OSError(errno.EBADF, 'Bad file descriptor (simulated)')

    # -- I/O ---------------------------------------------------------------------------------
    def recv(self, n):
        self._check()
        w = self.world
        link = w.run.link
        actor = w.waiter.actor()
        link.check_overread(n)
        idx, f = link.begin('r', n, self._timeout, actor)
        link.reads += 1
        if f is not None:
            try:
                out = link.raise_fault(f, 'r', None)
            except BaseException as e:
                link._rec(idx, actor, 'r', n, self._timeout, type(e).__name__)
                raise
            link._rec(idx, actor, 'r', n, self._timeout, 0)
            return out
        deadline = None if self._timeout is None else w.clock.now + self._timeout
        while True:
            w.pipe.pump(w.clock.now)
            if link.cur is None:
                link.device._check_stall(w.clock.now)
                if link.device.stalled and (link.device.stall or {}).get('kind') == 'eof':
                    # the peer has closed its side: end-of-stream, recv() returns b'' at once. A caller that polls in a loop burns CPU
                    # time doing so; the empty read is charged like an idle read of the in-memory transport
                    link._rec(idx, actor, 'r', n, self._timeout, 0)
                    w.clock.advance(link.cfg.get('idle_cost', 0.01))
                    return b''
            data = link.try_read(n, actor)
            if data is not None:
                link._rec(idx, actor, 'r', n, self._timeout, len(data))
                return data
            if self._timeout == 0.0:
                link._rec(idx, actor, 'r', n, self._timeout, 'BlockingIOError')
                raise BlockingIOError(errno.EAGAIN, 'Resource temporarily unavailable (simulated)')
            t = w.next_time()
            if t is None or (deadline is not None and t > deadline):
                if deadline is None:
                    link._rec(idx, actor, 'r', n, self._timeout, 'HANG')
                    raise SimHang('recv() on a blocking socket can never return')
                w.waiter.wait_until(deadline, link)
                link._rec(idx, actor, 'r', n, self._timeout, 'timeout')
                raise _real_socket.timeout('timed out (simulated)')
            w.waiter.wait_until(t, link)

    def send(self, data):
        self._check()
        w = self.world
        link = w.run.link
        actor = w.waiter.actor()
        data = bytes(data)
        idx, f = link.begin('w', len(data), self._timeout, actor)
        nth = link.cfg.get('eagain_nth_write')
        if nth is not None and f is None:
            link.write_ordinal = getattr(link, 'write_ordinal', -1) + 1
            if link.write_ordinal == nth and getattr(link, 'eagain_fired', None) is None:
                f = {'kind': 'eagain'}
                link.eagain_fired = idx
                link.faults_fired.append((idx, 'eagain', 'w'))
        if f is not None and f.get('kind') == 'eagain':
            # spurious readiness: select() said writeable, send() still has no room
            link._rec(idx, actor, 'w', len(data), self._timeout, 'BlockingIOError')
            raise BlockingIOError(errno.EAGAIN, 'Resource temporarily unavailable (injected)')
        if f is not None and f.get('kind') != 'empty':
            try:
                link.raise_fault(f, 'w', None)
            except BaseException as e:
                link._rec(idx, actor, 'w', len(data), self._timeout, type(e).__name__)
                raise
        pipe = w.pipe
        pipe.sends += 1
        pipe.pump(w.clock.now)
        if self._timeout == 0.0:
            k = pipe.put(data, w.clock.now)
            if k:
                pipe.segs.append([k, actor])
            if k == 0 and data:
                pipe.blocked += 1
                link._rec(idx, actor, 'w', len(data), self._timeout, 'BlockingIOError')
                raise BlockingIOError(errno.EAGAIN, 'Resource temporarily unavailable (simulated)')
            if k < len(data):
                pipe.short_sends += 1
                link.short_writes += 1
            pipe.pump(w.clock.now)
            link._rec(idx, actor, 'w', len(data), self._timeout, k)
            return k
        # blocking / timeout mode: the kernel copies everything, waiting for room as the peer drains
        deadline = None if self._timeout is None else w.clock.now + self._timeout
        off = 0
        while off < len(data):
            k0 = pipe.put(data[off:], w.clock.now)
            if k0:
                pipe.segs.append([k0, actor])
            off += k0
            pipe.pump(w.clock.now)
            if off >= len(data):
                break
            if pipe.room() > 0:
                continue
            t = pipe.next_time()
            if t is None or (deadline is not None and t > deadline):
                if deadline is None:
                    raise SimHang('send() on a blocking socket can never complete')
                w.waiter.wait_until(deadline, link)
                link._rec(idx, actor, 'w', len(data), self._timeout, 'timeout')
                raise _real_socket.timeout('timed out (simulated)')
            w.waiter.wait_until(t, link)
            pipe.pump(w.clock.now)
        link._rec(idx, actor, 'w', len(data), self._timeout, len(data))
        return len(data)

    def sendall(self, data):
        self.send(data)

    def shutdown(self, how):
        if self.closed:
            raise OSError(errno.EBADF, 'Bad file descriptor (simulated)')
        if self.shut or not self.world.run.link.connected or self.world.run.link.dead == 'reset':
            # after the peer's RST the kernel has already torn the connection down
            raise OSError(errno.ENOTCONN, 'Transport endpoint is not connected (simulated)')
        self.shut = True

    def close(self):
        self.closes += 1
        if not self.closed:
            self.closed = True
            self.world.pipe.flush(self.world.clock.now)      # the kernel keeps sending what it accepted
            self.world.run.link.close(self.world.waiter.actor())


class SiblingSocket(SimSocket):
    """The socket of *another* TcpTransport object of the same process, connected to another peer (address 'sibling-device'). Its peer has
    written `inbox` at connection time and reads everything at once. It shares nothing with the socket under test except the process."""
    sibling = True

    def __init__(self, world, timeout, inbox):
        SimSocket.__init__(self, world, timeout)
        self.inbox = bytearray(inbox)
        self.sent = bytearray()

    def fileno(self):
        return 8

    def recv(self, n):
        self._check()
        if self.inbox:
            out = bytes(self.inbox[:n])
            del self.inbox[:n]
            return out
        if self._timeout == 0.0:
            raise BlockingIOError(errno.EAGAIN, 'Resource temporarily unavailable (simulated, sibling)')
        if self._timeout is None:
            raise SimHang('recv() on the blocking sibling socket can never return')
        self.world.clock.advance(self._timeout)
        raise _real_socket.timeout('timed out (simulated, sibling)')

    def send(self, data):
        self._check()
        self.sent += bytes(data)
        return len(data)

    def shutdown(self, how):
        if self.closed:
            raise OSError(errno.EBADF, 'Bad file descriptor (simulated)')
        self.shut = True

    def close(self):
        self.closes += 1
        self.closed = True


class TcpWorld(object):
    """The fake `socket` and `select` modules seen by adb_shell.transport.tcp_transport."""

    def __init__(self, scn, run, waiter):
        self.scn = scn
        self.run = run
        self.waiter = waiter
        self.clock = run.clock
        self.spec = scn.get('tcp', {})
        self.pipe = Pipe(run, self.spec)
        self.sockets = []
        self.siblings = []
        self.sibling_inbox = b''
        self.select_log = []
        run.sock = self.pipe
        world = self

        class _SocketModule(object):
            SHUT_RD, SHUT_WR, SHUT_RDWR = SHUT_RD, SHUT_WR, SHUT_RDWR
            timeout = _real_socket.timeout
            error = OSError
            gaierror = _real_socket.gaierror
            AF_INET = _real_socket.AF_INET
            SOCK_STREAM = _real_socket.SOCK_STREAM

            @staticmethod
            def create_connection(address, timeout=None, source_address=None):
                return world.create_connection(address, timeout)

            @staticmethod
            def gethostname():
                return 'simhost'

        class _SelectModule(object):
            error = OSError

            @staticmethod
            def select(rlist, wlist, xlist, timeout=None):
                return world.select(rlist, wlist, xlist, timeout)

        self.socket_module = _SocketModule
        self.select_module = _SelectModule

    def next_time(self):
        ts = [t for t in (self.run.link.next_time(), self.pipe.next_time()) if t is not None]
        return min(ts) if ts else None

    def create_connection(self, address, timeout):
        if address[0] == 'sibling-device':
            s = SiblingSocket(self, timeout, self.sibling_inbox)
            self.siblings.append(s)
            return s
        link = self.run.link
        self.waiter.yield_point('connect')
        plan = link.cfg.get('connect_plan') or []
        i = link.connects
        what = plan[i] if i < len(plan) else None
        if what == 'timeout':
            link.connects += 1
            link.log.ev('connect', 0, what)
            if timeout:
                self.clock.advance(timeout)
            raise _real_socket.timeout('timed out (simulated)')
        link.connect(timeout, self.waiter.actor())
        self.pipe = Pipe(self.run, self.spec)
        self.run.sock = self.pipe
        s = SimSocket(self, timeout)
        self.sockets.append(s)
        return s

    def _ready(self, rlist, wlist):
        now = self.clock.now
        self.pipe.pump(now)
        link = self.run.link
        r = []
        for s in rlist:
            if s.closed:
                raise OSError(errno.EBADF, 'Bad file descriptor (simulated)')
            if getattr(s, 'sibling', False):
                if s.inbox:
                    r.append(s)
            elif link.dead is not None:
                r.append(s)
            elif link.readable_now():
                r.append(s)
            elif link.device.stalled and link.device.stall.get('kind') == 'eof':
                r.append(s)
        w = []
        for s in wlist:
            if s.closed:
                raise OSError(errno.EBADF, 'Bad file descriptor (simulated)')
            if getattr(s, 'sibling', False) or self.pipe.room() > 0 or link.dead is not None:
                w.append(s)
        return r, w

    def select(self, rlist, wlist, xlist, timeout):
        if timeout is not None and timeout < 0:
            raise ValueError('timeout must be non-negative')
        link = self.run.link
        self.waiter.yield_point('select')
        if link.cur is None:
            link.device._check_stall(self.clock.now)
        self.clock.advance(link.call_cost)
        deadline = None if timeout is None else self.clock.now + timeout
        while True:
            r, w = self._ready(rlist, wlist)
            if r or w:
                self.select_log.append((timeout, 'ready', self.clock.now))
                return r, w, []
            t = self.next_time()
            if t is not None and t <= self.clock.now:
                t = self.clock.now + 1e-7
            if t is None or (deadline is not None and t > deadline):
                if deadline is None:
                    if not self.waiter.can_be_woken(link):
                        raise SimHang('select() without a timeout can never return')
                    self.waiter.wait_until(None, link)
                    continue
                self.waiter.wait_until(deadline, link)
                if self.clock.now >= deadline:
                    r, w = self._ready(rlist, wlist) if timeout > 0 else ([], [])
                    self.select_log.append((timeout, 'timeout', self.clock.now))
                    return r, w, []
                continue
            self.waiter.wait_until(t, link)


def make_tcp_transport(scn, run, waiter):
    """Real TcpTransport on the simulated socket/select modules (module attributes substituted)."""
    L = load()
    mod = L['tcp_transport']
    world = TcpWorld(scn, run, waiter)
    run.tcp_world = world
    mod.socket = world.socket_module
    mod.select = world.select_module
    run.cleanup = getattr(run, 'cleanup', [])
    return mod.TcpTransport('sim-device', 5555), world


def restore_tcp_module():
    import select as _sel
    L = load()
    L['tcp_transport'].socket = _real_socket
    L['tcp_transport'].select = _sel


# ----------------------------------------------------------------------------------------
class SimAioTransport(asyncio.Transport):
    """A simulated asyncio.Transport: write buffering with high/low-water marks, data_received in
    adversary-chosen fragments, eof_received, connection_lost."""

    def __init__(self, loop, protocol, run, spec):
        super().__init__()
        self.loop = loop
        self.protocol = protocol
        self.run = run
        self.pipe = Pipe(run, spec)
        run.sock = self.pipe
        self.high = int(spec.get('high_water', 64 * 1024))
        self.low = int(spec.get('low_water', self.high // 4))
        self.pipe.kcap = self.pipe.cap    # the kernel's send buffer
        self.pipe.cap = 1 << 40          # asyncio buffers without bound; back-pressure is pause_writing
        self.closing = False
        self.closed = False
        self.paused_writing = False
        self.paused_reading = False
        self._timer = None
        self.eof_sent = False
        run.link.monitor_overread = False   # StreamReader buffers: adb_shell's read sizes are not the kernel's
        run.link.kick = self._kick

    # -- asyncio.Transport API ---------------------------------------------------------------
    def get_extra_info(self, name, default=None):
        if name == 'peername':
            return ('sim-device', 5555)
        return default

    def is_closing(self):
        return self.closing

    def set_write_buffer_limits(self, high=None, low=None):
        if high is not None:
            self.high = high
        if low is not None:
            self.low = low

    def get_write_buffer_size(self):
        return self.pipe.user_queued()

    def get_write_buffer_limits(self):
        return (self.low, self.high)

    def write(self, data):
        if self.closing:
            return
        link = self.run.link
        idx = link.ncalls
        link.ncalls += 1
        if link.ncalls > link.step_cap:
            raise SimAbort('transport call cap %d exceeded' % link.step_cap)
        link.writes += 1
        link._rec(idx, 0, 'w', len(data), None, len(data))
        if link.dead is not None:
            return
        f = link.faults.pop(idx, None)
        if f is not None:
            link.faults_fired.append((idx, f['kind'], 'w'))
            if f['kind'] in ('reset', 'eof', 'epipe'):
                link.dead = f['kind']
                self.loop.call_soon(self._lost, ConnectionResetError(104, 'Connection reset by peer (injected)') if f['kind'] == 'reset' else BrokenPipeError(32, 'Broken pipe (injected)'))
                return
        t = asyncio.current_task()
        self.pipe.segs.append([len(data), getattr(t, 'sim_actor', 0) if t is not None else 0])
        self.pipe.put_by_reference(data, self.loop.time())
        self.pipe.pump(self.loop.time())
        if self.pipe.user_queued() > self.high and not self.paused_writing:
            self.paused_writing = True
            self.pipe.paused += 1
            link.bp_pauses = getattr(link, 'bp_pauses', 0) + 1
            self.protocol.pause_writing()
        self._schedule()

    def can_write_eof(self):
        return True

    def write_eof(self):
        self.eof_sent = True

    def pause_reading(self):
        self.paused_reading = True

    def resume_reading(self):
        self.paused_reading = False
        self._schedule()

    def is_reading(self):
        return not self.paused_reading and not self.closing

    def close(self):
        if self.closing:
            return
        self.closing = True
        self.pipe.flush(self.loop.time())        # buffered data is flushed before the connection closes
        self.run.link.close(0)
        self.loop.call_soon(self._lost, None)

    def abort(self):
        self.close()

    def _lost(self, exc):
        if self.closed:
            return
        self.closed = True
        self.closing = True
        if self._timer is not None:
            self._timer.cancel()
        self.protocol.connection_lost(exc)

    # -- the pump ------------------------------------------------------------------------------
    def _kick(self):
        self._schedule()

    def _schedule(self):
        if self.closed:
            return
        if self._timer is not None:
            self._timer.cancel()
            self._timer = None
        now = self.loop.time()
        link = self.run.link
        ts = [self.pipe.next_time()]
        if not self.paused_reading:
            if link.cur is None and not getattr(self, 'eof_delivered', False) and link.device.stalled and (link.device.stall or {}).get('kind') == 'eof':
                ts.append(now)        # the peer's FIN is waiting to be noticed
            if link.readable_now():
                ts.append(now)
            else:
                ts.append(link.next_time())
        ts = [t for t in ts if t is not None]
        if not ts:
            return
        t = max(now, min(ts))
        self._timer = self.loop.call_at(t, self._pump)

    def _pump(self):
        self._timer = None
        if self.closed:
            return
        now = self.loop.time()
        link = self.run.link
        self.pipe.pump(now)
        if self.paused_writing and self.pipe.user_queued() <= self.low:
            self.paused_writing = False
            self.protocol.resume_writing()
        if link.cur is None:
            link.device._check_stall(now)
        if link.cur is None and link.device.stalled and link.device.stall.get('kind') == 'eof' and not self.paused_reading:
            if not getattr(self, 'eof_delivered', False):
                self.eof_delivered = True
                self.protocol.eof_received()
            return
        # deliver what is on the wire now, fragment by fragment
        n = 0
        while not self.paused_reading and not self.closed and n < 64:
            idx = link.ncalls
            f = link.faults.get(idx)
            if f is not None and (link.cur is not None or link.device.has_ready(now)):
                link.faults.pop(idx)
                link.ncalls += 1
                link.faults_fired.append((idx, f['kind'], 'r'))
                if f['kind'] == 'reset':
                    link.dead = 'reset'
                    self._lost(ConnectionResetError(104, 'Connection reset by peer (injected)'))
                    return
                if f['kind'] in ('eof', 'epipe'):
                    link.dead = 'eof'
                    self.protocol.eof_received()
                    return
                # timeout / empty: a pause in delivery
                self._timer = self.loop.call_at(now + (f.get('pause', 0.0) or 0.0) + 1e-6, self._pump)
                if f['kind'] in ('timeout', 'wtimeout'):
                    self._timer.cancel()
                    self._timer = self.loop.call_at(now + f.get('pause', 30.0), self._pump)
                return
            data = link.try_read(1 << 16, 0)
            if data is None:
                break
            link.ncalls += 1
            link.reads += 1
            link._rec(idx, 0, 'r', 1 << 16, None, len(data))
            if data:
                self.protocol.data_received(data)
            n += 1
        self._schedule()


async def _conn_factory(loop, protocol_factory, host, port, scn=None, run=None):
    link = run.link
    plan = link.cfg.get('connect_plan') or []
    i = link.connects
    what = plan[i] if i < len(plan) else None
    if what == 'timeout':
        link.connects += 1
        link.log.ev('connect', 0, what)
        await asyncio.sleep(1e9)
    for old in getattr(run, 'aio_transports', []):
        # the Link models one connection: a transport of an earlier connection is dead from now on
        if not old.closed:
            old.closed = True
            old.closing = True
            if old._timer is not None:
                old._timer.cancel()
    link.connect(None, 0)
    protocol = protocol_factory()
    tr = SimAioTransport(loop, protocol, run, scn.get('tcp', {}))
    run.aio_transports = getattr(run, 'aio_transports', []) + [tr]
    protocol.connection_made(tr)
    tr._schedule()
    return tr, protocol


def make_tcp_transport_async(scn, run, loop):
    L = load()

    async def factory(lp, protocol_factory, host, port):
        return await _conn_factory(lp, protocol_factory, host, port, scn=scn, run=run)
    loop.conn_factory = factory
    return L['tcp_transport_async'].TcpTransportAsync('sim-device', 5555)


# ----------------------------------------------------------------------------------------
def validate_against_kernel():
    """Model validation (non-deciding): one fixed script against a real loopback socket pair and
    against the simulated socket; compares the timing-independent observations the model relies on.
    A disagreement is a HARNESS-ERROR (the stub is wrong), never a VIOLATION."""
    import select
    import socket
    obs_real = {}
    srv = socket.socket()
    try:
        srv.bind(('127.0.0.1', 0))
    except OSError as e:
        print('sockmodel: loopback not available (%s); skipped' % e)
        return 0
    srv.listen(1)
    c = socket.socket()
    c.setsockopt(socket.SOL_SOCKET, socket.SO_SNDBUF, 4096)
    c.connect(srv.getsockname())
    a, _ = srv.accept()
    a.setsockopt(socket.SOL_SOCKET, socket.SO_RCVBUF, 4096)
    c.setblocking(False)
    total = 1 << 20
    k = c.send(b'x' * total)
    obs_real['short_send'] = 0 < k < total
    try:
        for _ in range(1000):
            c.send(b'x' * total)
        obs_real['eagain'] = False
    except BlockingIOError:
        obs_real['eagain'] = True
    r, _, _ = select.select([c], [], [], 0.05)
    obs_real['select_empty_times_out'] = (r == [])
    a.send(b'hello')
    r, _, _ = select.select([c], [], [], 1.0)
    obs_real['select_ready'] = (r == [c])
    obs_real['recv_le_n'] = len(c.recv(3)) <= 3
    c.recv(100)
    a.close()
    r, _, _ = select.select([c], [], [], 1.0)
    data = b'x'
    try:
        while data:
            data = c.recv(65536)
        obs_real['eof_empty'] = True
    except (BlockingIOError, ConnectionResetError):
        obs_real['eof_empty'] = 'reset-or-eagain'
    c.close()
    srv.close()
    try:
        select.select([], [], [], -1)
        obs_real['negative_timeout_valueerror'] = False
    except ValueError:
        obs_real['negative_timeout_valueerror'] = True

    # the same script on the model
    from .runner import build
    from .tape import Tape
    scn = {'device': {'maxdata': 4096, 'cnxn_silent': True}, 'config': {}, 'tcp': {'sndbuf': 4096, 'drain': 1, 'drain_every': 10.0}}
    run = build(scn, Tape(1))
    w = TcpWorld(scn, run, JumpWaiter(run.clock))
    s = w.create_connection(('x', 1), 1.0)
    s.setblocking(False)
    obs = {}
    k = s.send(b'x' * total)
    obs['short_send'] = 0 < k < total
    try:
        for _ in range(1000):
            s.send(b'x' * total)
        obs['eagain'] = False
    except BlockingIOError:
        obs['eagain'] = True
    r, _, _ = w.select([s], [], [], 0.05)
    obs['select_empty_times_out'] = (r == [])
    try:
        w.select([], [], [], -1)
        obs['negative_timeout_valueerror'] = False
    except ValueError:
        obs['negative_timeout_valueerror'] = True
    bad = [k for k in obs if obs[k] != obs_real.get(k)]
    print('sockmodel: kernel observations %r' % obs_real)
    print('sockmodel: model  observations %r' % obs)
    if bad:
        print('HARNESS-ERROR socket model disagrees with the kernel on %r' % bad)
        return 2
    print('sockmodel: model agrees with the kernel on %d shared observations (recv<=n, EOF, readiness checked on the kernel side only)' % len(obs))
    return 0
