"""A scripted byte-stream peer (no ADB framing) with the Device interface the Link expects.
Used by the transport-contract checks (C18, C20): the peer writes given chunks at given times
and records every byte it receives."""
from .device import Pkt


class RawPeer(object):
    def __init__(self, spec, tape=None):
        self.spec = spec
        self.script = [(float(d), bytes.fromhex(h)) for (d, h) in spec.get('script', [])]
        self.stall = None
        self.stalled = False
        self.probes = {}
        self.c02 = []
        self.c04 = []
        self.notes = []
        self.host_pkts = []
        self.host_log_full = []
        self.all_streams = []
        self.push_attempts = []
        self.pushed = []
        self.auth_log = []
        self.sessions = 0
        self.received = bytearray()
        self.recv_log = []
        self.sent = bytearray()
        self.broken = None
        self.q = []
        self.total_emitted = 0
        self.emitted = 0
        self.t0 = None
        self.eof_after = spec.get('eof_after')     # peer closes after sending everything
        self.started = False
        self.sent_sessions = []

    def probe(self, k, n=1):
        self.probes[k] = self.probes.get(k, 0) + n

    def new_session(self, first=False):
        self.sessions += 1
        self.q = []
        self.started = False

    def start(self, now):
        """(Re)arm the script relative to `now` (called at connect time)."""
        t = now
        self.q = []
        self.sent_sessions.append(bytearray())
        for (d, b) in self.script:
            t += d
            self.q.append((t, b))
        self.started = True
        self.stalled = False
        self.stall = None
        self._maybe_eof()

    def _maybe_eof(self):
        if self.eof_after and not self.q:
            # the peer has written everything and closes its side (FIN): reads find end-of-stream from now on
            self.stalled = True
            self.stall = {'kind': 'eof'}
            self.probe('peer_eof')

    def _check_stall(self, now):
        pass

    def at_message_boundary(self):
        return True

    def on_host_bytes(self, data, now):
        self.received += data
        self.recv_log.append((now, len(data)))

    def has_ready(self, now):
        return bool(self.q) and self.q[0][0] <= now

    def next_event_time(self, now):
        if not self.q:
            return None
        return max(now, self.q[0][0])

    def pop_packet(self, now):
        if not self.has_ready(now):
            return None
        t, b = self.q.pop(0)
        p = Pkt(0, 0, 0, b'', kind='raw')
        p.raw = b
        p.seq = self.total_emitted
        self.total_emitted += 1
        self.emitted += 1
        self._maybe_eof()
        self.sent += b
        if self.sent_sessions:
            self.sent_sessions[-1] += b
        return p

    def on_packet_read(self, p, now):
        pass

    def summary_streams(self):
        return []
