"""Reference model of the packet store (C19) and a shadow wrapper that mirrors every call made
on the real store during any simulation, comparing results on the spot."""
from collections import deque

CLSE = b'CLSE'


class StoreModel(object):
    """dict[(arg0, arg1)] -> deque[(cmd, data)]; `known` = pairs that currently have an entry."""

    def __init__(self):
        self.q = {}
        self.known = set()

    def pending(self):
        return [k for k, v in self.q.items() if v]

    @staticmethod
    def _m(pat, pair):
        return (pat[0] is None or pat[0] == pair[0]) and (pat[1] is None or pat[1] == pair[1])

    def candidates(self, a0, a1):
        return [k for k in self.pending() if self._m((a0, a1), k)]

    def candidates_zeros(self, a0, a1):
        out = []
        for pat in ((a0, a1), (a0, 0), (0, a1), (0, 0)):
            for k in self.candidates(*pat):
                if k not in out:
                    out.append(k)
        return out

    def forget(self, pair):
        self.q.pop(pair, None)
        self.known.discard(pair)

    def forget_all(self):
        self.q.clear()
        self.known.clear()


class ShadowStore(object):
    """Wraps the real _AdbPacketStore; same public surface."""

    def __init__(self, real, on_event=None):
        self._real = real
        self.model = StoreModel()
        self.errors = []
        self.ops = 0
        self.probes = {}
        self.on_event = on_event
        self.history = []
        self.keep_history = False
        self.wild_with_2_pending = 0
        self.max_depth = 0

    # the library touches `_dict` only in tests; keep it reachable
    @property
    def _dict(self):
        return self._real._dict

    def _probe(self, k):
        self.probes[k] = self.probes.get(k, 0) + 1

    def _err(self, msg):
        if len(self.errors) < 20:
            self.errors.append(msg)

    def _h(self, *t):
        self.ops += 1
        if self.keep_history:
            self.history.append(t)

    def put(self, arg0, arg1, cmd, data):
        m = self.model
        pair = (arg0, arg1)
        before = len(m.q.get(pair, ()))
        r = self._real.put(arg0, arg1, cmd, data)
        self._h('put', arg0, arg1, cmd)
        if cmd == CLSE and pair not in m.known:
            # unspecified by C19: follow the implementation (observed through its public lookup)
            stored = bool(self._real.find(arg0, arg1))
            if stored:
                m.known.add(pair)
                m.q.setdefault(pair, deque()).append((cmd, data))
                self._probe('store_clse_parked_new_pair')
            else:
                self._probe('store_clse_dropped')
                if self.on_event:
                    self.on_event('clse_dropped', arg0, arg1)
        else:
            m.known.add(pair)
            m.q.setdefault(pair, deque()).append((cmd, data))
            self._probe('store_parked')
            if cmd == CLSE:
                self._probe('store_clse_parked')
            if self.on_event:
                self.on_event('parked', arg0, arg1, cmd)
        self.max_depth = max(self.max_depth, len(m.q.get(pair, ())))
        if r is not None:
            self._err('put returned %r' % (r,))
        # cross-check: the pair must now be findable iff the model has something pending for it
        got = bool(self._real.find(arg0, arg1))
        want = bool(m.q.get(pair))
        if got != want:
            self._err('after put(%r,%r,%r): pending=%s in store, %s in model (before: %d queued)' % (arg0, arg1, cmd, got, want, before))
        return r

    def _check_find(self, what, a0, a1, r, cands):
        if len(self.model.pending()) >= 2 and (a0 is None or a1 is None or what == 'find_allow_zeros'):
            self.wild_with_2_pending += 1
        if not cands:
            if r is not None:
                self._err('%s(%r,%r) returned %r but nothing matching is pending (pending=%r)' % (what, a0, a1, r, self.model.pending()))
        else:
            if r is None:
                self._err('%s(%r,%r) returned None but %r are pending and match' % (what, a0, a1, cands))
            elif tuple(r) not in cands:
                self._err('%s(%r,%r) returned %r which is not a matching pending pair %r' % (what, a0, a1, r, cands))

    def find(self, arg0, arg1):
        r = self._real.find(arg0, arg1)
        self._h('find', arg0, arg1)
        self._check_find('find', arg0, arg1, r, self.model.candidates(arg0, arg1))
        return r

    def find_allow_zeros(self, arg0, arg1):
        r = self._real.find_allow_zeros(arg0, arg1)
        self._h('find_allow_zeros', arg0, arg1)
        self._check_find('find_allow_zeros', arg0, arg1, r, self.model.candidates_zeros(arg0, arg1))
        return r

    def get(self, arg0, arg1):
        m = self.model
        cands = m.candidates(arg0, arg1)
        self._h('get', arg0, arg1)
        if not cands:
            # precondition violated by the caller; mirror whatever happens, check nothing
            self._probe('store_get_without_pending')
            return self._real.get(arg0, arg1)
        r = self._real.get(arg0, arg1)
        try:
            cmd, r0, r1, data = r
        except (TypeError, ValueError):
            self._err('get(%r,%r) returned %r' % (arg0, arg1, r))
            return r
        pair = (r0, r1)
        if pair not in cands:
            self._err('get(%r,%r) returned a packet of %r; matching pending pairs are %r' % (arg0, arg1, pair, cands))
            return r
        head = m.q[pair].popleft()
        if head[0] != cmd or bytes(head[1]) != bytes(data):
            self._err('get(%r,%r) returned %r/%dB, the oldest pending packet of %r is %r/%dB (FIFO broken)' % (arg0, arg1, cmd, len(data), pair, head[0], len(head[1])))
        self._probe('store_delivered')
        if self.on_event:
            self.on_event('delivered', r0, r1, cmd)
        if cmd == CLSE:
            m.forget(pair)
        elif not m.q[pair]:
            pass
        return r

    def clear(self, arg0, arg1):
        r = self._real.clear(arg0, arg1)
        self._h('clear', arg0, arg1)
        self.model.forget((arg0, arg1))
        if self._real.find(arg0, arg1):
            self._err('clear(%r,%r) left packets pending' % (arg0, arg1))
        return r

    def clear_all(self):
        r = self._real.clear_all()
        self._h('clear_all')
        self.model.forget_all()
        if self._real.find(None, None) is not None or len(self._real) != 0:
            self._err('clear_all left packets pending')
        return r

    def __len__(self):
        r = len(self._real)
        self._h('len')
        want = len(self.model.pending())
        if r != want:
            self._err('len() == %d, %d pairs have pending packets' % (r, want))
        return r

    def __contains__(self, value):
        r = value in self._real
        self._h('contains', value)
        want = bool(self.model.candidates(value[0], value[1]))
        if bool(r) != want:
            self._err('%r in store == %r, model says %r' % (value, r, want))
        return r


def attach_shadow(io_manager, run, L):
    real = io_manager._packet_store
    sh = ShadowStore(real)
    sh.k1_drops = []
    sh.parked_by = {}
    dev = run.device

    def actor():
        if run.sched is not None:
            return run.sched.actor()
        try:
            import asyncio
            t = asyncio.current_task()
            return getattr(t, 'sim_actor', 0)
        except RuntimeError:
            return 0

    def on_event(kind, arg0, arg1, cmd=None):
        if kind == 'clse_dropped':
            s = dev.by_local.get(arg1)
            if s is not None and s.session == dev.sessions and (arg0 in (s.remote, 0)):
                sh.k1_drops.append({'local': arg1, 'remote': arg0, 'reader': actor(), 't': run.clock.now, 'sid': s.sid})
                sh._probe('clse_dropped_for_live_stream')
        elif kind == 'parked':
            sh._probe('foreign_packet_parked')
    sh.on_event = on_event
    io_manager._packet_store = sh
    return sh
