"""Common oracles: ground-truth comparison of API results, wire/protocol/over-read/store
monitors. Expected values are derived from the scenario's device world with simadb's own
codec — never through adb_shell code."""
from .device import expand, shell_payloads

TIMEOUT_EXCS = ('AdbTimeoutError', 'TcpTimeoutException')


def P(tag, msg):
    return (tag, msg)


class SessionModel(object):
    """Reference model of what a (single-actor, program-order) session must return."""

    def __init__(self, scn):
        self.scn = scn
        self.d = scn['device']
        self.connected = False
        self.pushed = {}
        self.nconnect = 0

    # expected outcome of one op: ('value', v) | ('exc', names, contains) | ('any',)
    def expect(self, op):
        k = op['op']
        d = self.d
        if k == 'connect':
            i = self.nconnect
            self.nconnect += 1
            plan = self.scn.get('config', {}).get('connect_plan') or []
            what = plan[i] if i < len(plan) else None
            self.connected = False
            ec = op.get('expect_connect')
            if ec is not None:
                table = {'refused': ('ConnectionRefusedError',), 'timeout': ('TcpTimeoutException',), 'silent': TIMEOUT_EXCS,
                         'noauthkeys': ('DeviceAuthError',), 'badchallenge': ('InvalidResponseError',)}
                if ec in ('ok', 'okauth'):
                    self.connected = True
                    return ('value', True)
                return ('exc', table[ec], None)
            if what == 'refused':
                return ('exc', ('ConnectionRefusedError',), None)
            if what == 'timeout':
                return ('exc', ('TcpTimeoutException',), None)
            if d.get('cnxn_silent'):
                return ('exc', TIMEOUT_EXCS, None)
            if d.get('auth'):
                return ('any',)
            self.connected = True
            return ('value', True)
        if k == 'close':
            self.connected = False
            if op.get('fail'):
                return ('any',)      # the transport's close() raised: whatever close() does with that, the device is closed
            return ('value', None)
        if k == 'available':
            return ('value', self.connected)
        if k == 'sleep':
            return ('value', None)
        if k == 'locks':
            return ('locks',)
        if k in ('usb_heal', 'ghost'):
            return ('value', None)
        if k == 'ghost_resume':
            return ('any',)
        if k == 'coro_create':
            self.pending_inner = op['inner']
            return ('value', None)
        if k == 'coro_await':
            inner = getattr(self, 'pending_inner', None)
            self.pending_inner = None
            if inner is None:
                return ('value', None)
            return self.expect(inner)      # judged in the state the connection is in when the operation actually runs
        if k == 'maxchunk':
            return ('any',)
        if k == 'ss_create':
            self.pending_ss = op
            self.ss_taken = 0
            return ('value', None)
        if k in ('ss_consume', 'ss_next'):
            cop = getattr(self, 'pending_ss', None)
            if k == 'ss_consume':
                self.pending_ss = None
            if cop is None:
                return ('value', [])
            if op.get('expect_stale'):
                # the generator belongs to an earlier life of the connection: it has nothing to read any more and must not make anything up
                self.pending_ss = None
                return ('mustraise',)
            if not self.connected:
                self.pending_ss = None
                return ('exc', ('AdbConnectionError',), None)
            ps = shell_payloads(d, cop['cmd'])
            if cop.get('decode', True):
                ps = [p.decode('utf8', 'backslashreplace') for p in ps]
            t = getattr(self, 'ss_taken', 0)
            if k == 'ss_next':
                self.ss_taken = t + op.get('n', 1)
                if self.ss_taken > len(ps):
                    self.pending_ss = None
                return ('value', ps[t:t + op.get('n', 1)])
            return ('value', ps[t:])
        if k == 'ss_drop':
            self.pending_ss = None
            return ('any',)
        path = op.get('path')
        if k in ('list', 'stat', 'pull', 'push') and not path:
            return ('exc', ('DevicePathInvalidError',), None)
        if not self.connected:
            return ('exc', ('AdbConnectionError',), None)
        if op.get('expect_timeout'):
            return ('exc', TIMEOUT_EXCS, None)
        if k in ('shell', 'exec_out'):
            data = b''.join(shell_payloads(d, op['cmd']))
            return ('value', data.decode('utf8', 'backslashreplace') if op.get('decode', True) else data)
        if k == 'streaming_shell':
            ps = shell_payloads(d, op['cmd'])
            if op.get('decode', True):
                ps = [p.decode('utf8', 'backslashreplace') for p in ps]
            return ('value', ps)
        if k in ('root', 'reboot'):
            return ('value', None)
        br = d.get('bad_record', {})
        if k == 'list':
            if br.get('list'):
                return ('exc', ('InvalidResponseError',), None)
            return ('value', [(bytes.fromhex(e[0]), e[1], e[2], e[3]) for e in d.get('dirs', {}).get(path, [])])
        if k == 'stat':
            if br.get('stat'):
                return ('exc', ('InvalidResponseError',), None)
            ov = d.get('stat_override', {}).get(path)
            if ov is not None:
                return ('value', tuple(ov))
            if path in self.pushed:
                f = self.pushed[path]
                return ('statpushed', f)
            f = d.get('fs', {}).get(path)
            if f is None:
                return ('value', (0, 0, 0))
            return ('value', (f['mode'], f['content']['size'] & 0xFFFFFFFF, f['mtime']))
        if k == 'pull':
            rf = d.get('recv_fail', {}).get(path)
            if d.get('recv_close', {}).get(path) is not None:
                return ('exc', TIMEOUT_EXCS, None)
            if path in self.pushed and not rf:
                return ('pull', self.pushed[path]['data'])
            f = d.get('fs', {}).get(path)
            if f is None and not rf:
                return ('exc', ('AdbCommandFailureException',), 'No such file or directory')
            if rf:
                return ('exc', ('AdbCommandFailureException',), bytes.fromhex(rf['reason']).decode('utf-8', 'backslashreplace'))
            if br.get('recv'):
                return ('exc', ('InvalidResponseError',), None)
            return ('pull', expand(f['content']))
        if k == 'push':
            if br.get('send'):
                return ('exc', ('InvalidResponseError',), None)
            return ('push',)
        raise AssertionError(k)

    def note_push(self, op, rec):
        if op.get('src') == 'dir':
            for name, data in rec.get('src_files', {}).items():
                self.pushed[op['path'] + '/' + name] = {'data': data}
        elif 'src_bytes' in rec:
            self.pushed[op['path']] = {'data': rec['src_bytes']}


def norm_list(v):
    try:
        return [(bytes(e.filename), e.mode, e.size, e.mtime) for e in v]
    except Exception:   # noqa
        return ('unreadable', repr(v)[:200])


def brief(v, n=48):
    if isinstance(v, (bytes, bytearray)):
        return '%dB:%s' % (len(v), bytes(v[:n]).hex())
    if isinstance(v, str):
        return '%dch:%r' % (len(v), v[:n])
    if isinstance(v, (list, tuple)) and len(v) > 6:
        return '[%d items: %s ...]' % (len(v), ', '.join(brief(x, 12) for x in v[:4]))
    if isinstance(v, (list, tuple)):
        return '[' + ', '.join(brief(x, 16) for x in v) + ']'
    return repr(v)[:2 * n]


def first_diff(a, b):
    n = min(len(a), len(b))
    for i in range(n):
        if a[i] != b[i]:
            return i
    return n


def check_session(run, scn, actor=0, model=None, relaxed_from=None):
    """Ground-truth comparison for a single-actor session. Returns a list of (tag, msg).

    relaxed_from: index of the first op during which a fault was injected; from there on
    an op may raise anything, but a value it returns must still be the correct one."""
    probs = []
    m = model or SessionModel(scn)
    recs = run.results[actor]
    dev = run.device
    for i, rec in enumerate(recs):
        op = rec['spec']
        exp = m.expect(op)
        relaxed = relaxed_from is not None and i >= relaxed_from
        where = 'op#%d %s' % (i, op['op'])
        if rec.get('exc') in ('SimAbort', 'SimHang'):
            break
        if exp[0] == 'any':
            if op['op'] == 'connect':
                m.connected = bool(rec['ok'] and rec['value'])
            continue
        if op.get('late_exit') and not rec['ok'] and rec['exc'] == 'AdbTimeoutError':
            continue        # the command ended after its timeout_s: giving the (complete) result and reporting the timeout are both within the statement
        if exp[0] == 'mustraise':
            if rec['ok'] and rec['value']:
                probs.append(P('wrong-result', '%s returned %s although its stream belongs to a connection that was closed before' % (where, brief(rec['value']))))
            continue
        if exp[0] == 'exc':
            if rec['ok']:
                if not relaxed:
                    probs.append(P('missing-exception', '%s returned %s, expected %s' % (where, brief(rec['value']), '/'.join(exp[1]))))
            elif rec['exc'] not in exp[1]:
                if not relaxed:
                    probs.append(P('wrong-exception', '%s raised %s(%s), expected %s' % (where, rec['exc'], rec.get('msg'), '/'.join(exp[1]))))
            elif exp[2] is not None and exp[2] not in (rec.get('msg') or ''):
                e = rec.get('exc_obj')
                full = str(e) if e is not None else ''
                if exp[2] not in full and not relaxed:
                    probs.append(P('reason-missing', '%s raised %s without the device\'s reason %r: %r' % (where, rec['exc'], exp[2][:60], full[:120])))
            continue
        if op['op'] == 'pull' and op.get('dest') == 'failing' and rec.get('dest_raised'):
            # the local destination failed (disk full): the call must surface that error (or the one met while closing)
            if rec['ok']:
                probs.append(P('missing-exception', '%s returned normally although the destination raised OSError' % where))
            continue
        if exp[0] == 'push':
            # did the device answer FAIL during this call? (ground truth, not a re-derivation of the chunking)
            failed = [a for a in dev.push_attempts if rec.get('pk0', 0) <= dev.all_streams[a['stream']].open_pk < rec.get('pk1', 1 << 60) and a.get('fail') is not None and (len(run.results) <= 1 or dev.all_streams[a['stream']].opener == actor)]
            if failed:
                exp = ('pushfail', bytes(failed[0]['fail']))
        if not rec['ok']:
            if op['op'] == 'connect':
                m.connected = False
            if exp[0] == 'pushfail' and rec['exc'] == 'PushFailedError':
                e = rec.get('exc_obj')
                carried = b''
                if e is not None and e.args:
                    a0 = e.args[0]
                    carried = bytes(a0) if isinstance(a0, (bytes, bytearray)) else str(a0).encode('utf8', 'backslashreplace')
                if exp[1] not in carried:
                    probs.append(P('reason-missing', '%s raised PushFailedError without the device\'s reason %r (args=%r)' % (where, exp[1][:60], getattr(e, 'args', None))))
                continue
            if relaxed:
                continue
            if exp[0] == 'push' and op.get('may_raise'):
                # the source holds something push() is not specified for (a sub-directory): it may give up, but what it did
                # deliver before must be right -- under the right name, with the right content, once
                sub = check_push(run, op, rec, where, actor if len(run.results) > 1 else None)
                probs += [p for p in sub if p[0] in ('push-content', 'push-extra', 'push-duplicate', 'push-mode')]
                continue
            tag = 'timeout-instead-of-result' if rec['exc'] in TIMEOUT_EXCS else 'unexpected-exception'
            probs.append(P(tag, '%s raised %s: %s' % (where, rec['exc'], rec.get('msg'))))
            continue
        v = rec['value']
        if exp[0] == 'value':
            want = exp[1]
            got = v
            if op['op'] == 'list':
                got = norm_list(v)
            elif op['op'] == 'stat':
                got = tuple(v) if isinstance(v, (tuple, list)) else v
            if op['op'] == 'connect':
                m.connected = bool(v)
            if got != want or type(got) is not type(want) and not (isinstance(got, (list, tuple)) and isinstance(want, (list, tuple))):
                extra = ''
                if isinstance(want, (bytes, str)) and isinstance(got, (bytes, str)) and type(want) is type(got):
                    j = first_diff(got, want)
                    extra = ' (first difference at offset %d; got %d, want %d items)' % (j, len(got), len(want))
                probs.append(P('wrong-result', '%s returned %s, device ground truth is %s%s' % (where, brief(got), brief(want), extra)))
        elif exp[0] == 'statpushed':
            pass
        elif exp[0] == 'locks':
            if any(v.values()):
                probs.append(P('lock-held', '%s: locks still held after the failed operation: %r' % (where, v)))
        elif exp[0] == 'pull':
            got = rec.get('dest_bytes')
            want = exp[1]
            if got != want:
                j = first_diff(got or b'', want)
                probs.append(P('wrong-result', '%s wrote %s, device file is %s (first difference at %d)' % (where, brief(got), brief(want), j)))
            cb = rec.get('cb_calls')
            if op.get('cb') and cb is not None and not relaxed:
                if any(not isinstance(c[1], int) for c in cb):
                    probs.append(P('callback-count', '%s: progress callback received a byte count of %r' % (where, [c[1] for c in cb if not isinstance(c[1], int)][0])))
                elif sum(c[1] for c in cb) != len(want):
                    probs.append(P('callback-count', '%s: progress callback byte counts sum to %d, file has %d' % (where, sum(c[1] for c in cb), len(want))))
        elif exp[0] == 'pushfail':
            probs.append(P('missing-exception', '%s returned normally although the device answered FAIL(%r)' % (where, exp[1][:40])))
        elif exp[0] == 'push':
            m.note_push(op, rec)
            probs += check_push(run, op, rec, where, actor if len(run.results) > 1 else None)
    return probs


def _sp(path):
    return path if len(path) <= 48 else path[:20] + '...(%d chars)...' % len(path) + path[-12:]


def check_push(run, op, rec, where, actor=None):
    """C07: what the device's sync service decoded vs. the source."""
    probs = []
    dev = run.device
    t0, t1 = rec['t0'], rec['t1']
    # attempts whose stream was opened during this call (host packet index window: virtual time may stand still between calls)
    pk0, pk1 = rec.get('pk0', 0), rec.get('pk1', 1 << 60)
    mine = [p for p in dev.push_attempts if pk0 <= dev.all_streams[p['stream']].open_pk < pk1 and (actor is None or dev.all_streams[p['stream']].opener == actor)]
    if op.get('src') == 'dir':
        want = {op['path'] + '/' + n: d for n, d in rec.get('src_files', {}).items()}
    else:
        want = {op['path']: rec.get('src_bytes', b'')}
    seen = {}
    for p in mine:
        if p['path'] in seen:
            probs.append(P('push-duplicate', '%s: SEND for %r issued more than once' % (where, _sp(p['path']))))
        seen[p['path']] = p
    for path, data in want.items():
        p = seen.get(path)
        if p is None:
            probs.append(P('push-missing', '%s: device never received SEND for %r (got %r)' % (where, _sp(path), sorted(_sp(x) for x in seen))))
            continue
        if not p.get('done'):
            probs.append(P('push-incomplete', '%s: push returned but the device saw no DONE / sent no OKAY for %r' % (where, _sp(path))))
            continue
        if bytes(p['data']) != data:
            j = first_diff(bytes(p['data']), data)
            probs.append(P('push-content', '%s: device received %s for %r, source is %s (first difference at %d)' % (where, brief(p['data']), _sp(path), brief(data), j)))
        want_mode = int(op.get('mode', 33272))
        if p['mode'] != want_mode:
            probs.append(P('push-mode', '%s: SEND mode %r, expected %d' % (where, p['mode'], want_mode)))
        mt = op.get('mtime', 0)
        if mt == 0:
            if not (int(t0) <= p['mtime'] <= int(t1) + 1):
                probs.append(P('push-mtime', '%s: DONE mtime %d not within the call\'s time span [%d, %d]' % (where, p['mtime'], int(t0), int(t1) + 1)))
        elif p['mtime'] != (mt & 0xFFFFFFFF):
            probs.append(P('push-mtime', '%s: DONE mtime %d, expected %d' % (where, p['mtime'], mt)))
        if any(n > 65536 for n in p['datas']):
            probs.append(P('push-chunk', '%s: a DATA chunk of %d bytes exceeds 64 KiB' % (where, max(p['datas']))))
        if p.get('t1') is not None and p['t1'] > t1:
            probs.append(P('push-early-return', '%s returned before the device processed DONE' % where))
    for path in seen:
        if path not in want:
            probs.append(P('push-extra', '%s: unexpected SEND for %r' % (where, _sp(path))))
    cb = rec.get('cb_calls')
    if op.get('cb') and cb is not None:
        for path, data in want.items():
            tot = sum((c[1] if isinstance(c[1], int) else -1) for c in cb if c[0] == path)
            if tot != len(data):
                probs.append(P('callback-count', '%s: progress callback byte counts for %r sum to %d, source has %d' % (where, _sp(path), tot, len(data))))
            bad = [c for c in cb if c[0] == path and c[2] != len(data)]
            if bad and not op.get('src_pos'):
                probs.append(P('callback-total', '%s: callback total_bytes %r, source has %d' % (where, bad[0][2], len(data))))
    return probs


def monitors(run, which=('c02', 'c03', 'c04', 'store')):
    """Findings of the always-on monitors, tagged."""
    out = []
    if 'c02' in which:
        out += [P('wire-format', m) for m in run.device.c02]
    if 'c03' in which:
        out += [P('over-read', m) for m in run.link.c03]
    if 'c04' in which:
        out += [P('protocol', m) for m in run.device.c04]
    if 'store' in which and run.store_shadow is not None:
        out += [P('store-model', m) for m in run.store_shadow.errors]
    return out


def end_of_call_boundary(run):
    """C02: after every completed call the host byte stream is at a message boundary."""
    out = []
    for a in run.results:
        for i, rec in enumerate(a):
            if rec.get('boundary') is False and rec.get('exc') not in ('SimAbort', 'SimHang'):
                if rec['ok']:
                    out.append(P('wire-partial-message', 'op#%d %s returned with a partial message on the wire' % (i, rec['op'])))
    return out
