"""Regenerates seeded/README.md from seeded/*/meta.json."""
import json
import os

ROOT = os.path.dirname(os.path.dirname(os.path.abspath(__file__)))


def main():
    d = os.path.join(ROOT, 'seeded')
    rows = []
    for name in sorted(os.listdir(d)):
        mp = os.path.join(d, name, 'meta.json')
        if os.path.exists(mp):
            with open(mp) as f:
                m = json.load(f)
            rows.append((name, m))
    out = ['# Seeded changes (written by independent sub-agents from the property text alone)', '',
           'Each directory holds `patch.diff`, the author\'s demonstration `demo.py`, its `README.md` and `meta.json` (what I confirmed and ran).',
           'Confirmed = the unedited suite passes with the change (177 passed), the demonstration fails with it and passes without it.', '',
           '| id | property | what it breaks / needs | confirmed | checks run -> verdict |', '|---|---|---|---|---|']
    for name, m in rows:
        verd = ', '.join('%s: %s' % (k, v) for k, v in sorted(m.get('checks', {}).items()))
        out.append('| %s | %s | %s | %s | %s |' % (name, m.get('property'), m.get('summary', '').replace('|', '/'), 'yes' if m.get('confirmed') else 'NO: ' + m.get('why_not', ''), verd))
    with open(os.path.join(d, 'README.md'), 'w') as f:
        f.write('\n'.join(out) + '\n')
    print('\n'.join(out))


if __name__ == '__main__':
    main()
