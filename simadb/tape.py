"""Choice tape: every decision of a run is a draw from a labelled sub-tape.

generate mode: values come from random.Random(H(run_seed, label)) and are recorded.
replay mode  : values are read from the recorded lists; an exhausted tape or an
               out-of-range value yields 0, which by convention is the benign choice.
"""
import hashlib
import random


def h64(*parts):
    m = hashlib.blake2b(digest_size=8)
    for p in parts:
        m.update(repr(p).encode())
        m.update(b'\0')
    return int.from_bytes(m.digest(), 'big')


class Tape(object):
    def __init__(self, run_seed, recorded=None, limit=2000000):
        self.run_seed = run_seed
        self.replay = recorded is not None
        self._rec = {} if recorded is None else {k: list(v) for k, v in recorded.items()}
        self._pos = {}
        self._rng = {}
        self._out = {}
        self.draws = 0
        self.limit = limit

    def _r(self, label):
        r = self._rng.get(label)
        if r is None:
            r = self._rng[label] = random.Random(h64(self.run_seed, label))
        return r

    def draw(self, label, n, weights=None):
        """Return an int in [0, n). 0 is the benign choice."""
        if n <= 1:
            return 0
        self.draws += 1
        if self.replay:
            lst = self._rec.get(label)
            i = self._pos.get(label, 0)
            self._pos[label] = i + 1
            v = lst[i] if lst is not None and i < len(lst) else 0
            if not 0 <= v < n:
                v = 0
        else:
            r = self._r(label)
            if weights is None:
                v = r.randrange(n)
            else:
                v = r.choices(range(n), weights=weights[:n])[0]
        self._out.setdefault(label, []).append(v)
        return v

    def chance(self, label, p):
        """True with probability p (recorded as 1/0)."""
        if p <= 0:
            return False
        return self.draw(label, 2, weights=[1.0 - p, p]) == 1

    def recorded(self):
        """The draws actually made (what a replay file stores)."""
        return {k: list(v) for k, v in self._out.items()}


class Gen(object):
    """Plain seeded generator used when *generating* scenarios (scenarios are stored
    explicitly in replay files, so these draws need no tape)."""
    def __init__(self, seed):
        self.r = random.Random(seed)

    def int(self, lo, hi):
        return self.r.randint(lo, hi)

    def pick(self, seq, weights=None):
        if weights is None:
            return seq[self.r.randrange(len(seq))]
        return self.r.choices(seq, weights=weights)[0]

    def chance(self, p):
        return self.r.random() < p

    def bytes(self, n):
        return self.r.randbytes(n)

    def sub(self, label):
        return Gen(h64(self.r.getrandbits(64), label))
