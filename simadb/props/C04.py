"""C04 — per-stream protocol conformance: ids, one OKAY per WRTE, stop-and-wait, CLSE."""
from .. import oracles as O
from .. import scenario as S
from ..tape import Gen
from .common import absorb, blank, brief_scn, run_scn, termination

ID = 'C04'
LEVEL = 'exploration'
TIERS = {'quick': 6000, 'thorough': 300000}
RULE = ('seeded sessions of 1-6 stream operations (shell, exec_out, streaming_shell, root, list, stat, pull with/without callback, single- and '
        'multi-WRITE push, also with a device FAIL that overtakes an OKAY, and pulls whose local destination fails mid-transfer so that the stream is closed while a device WRITE is in flight; streaming_shell generators read part-way with other commands run in between; commands given timeout_s whose CLSE comes after the deadline (it must still be answered once); destinations that fill the OPEN payload up to (and slightly beyond) maxdata; generators abandoned after 1-3 chunks; maxdata 256..512 with device paths longer than that) against a strict stop-and-wait adbd model with 32-bit remote ids != local ids; a protocol monitor on the device side '
        'runs one state machine per local id with knowledge of which device packets the host has already read. non-trivial = >= 2 streams and '
        '>= 1 multi-WRITE transfer in the run; distinct = event-log digests')
ASSUMPTIONS = ['the device stalls until the OKAY it is owed arrives, as adbd does, so a missing OKAY becomes a timeout',
               'that list/stat/pull close their stream is C08/C09\'s statement; reboot() legitimately leaves its stream open']
EXPECT_PROBES = {'all': ['wrte_with_zero_remote_id', 'open_refused', 'c04_abandoned_generator', 'c04_request_longer_than_maxdata', 'c04_nested_streams', 'c04_open_fills_maxdata', 'c04_multi_wrte_push', 'c04_ge_4_streams', 'empty_payload_wrte_acked', 'push_fail_sent', 'fail_before_okay', 'wrte_in_flight_at_host_close', 'recv_closed_mid_transfer', 'late_okay', 'cmd_exits_late']}
KINDS = ['shell', 'exec_out', 'streaming_shell', 'root', 'list', 'stat', 'pull', 'pull', 'push', 'push']
OWN = ('protocol', 'wrong-result', 'unexpected-exception', 'timeout-instead-of-result', 'missing-exception', 'wrong-exception', 'hang', 'no-termination',
       'unacked-write', 'clse-count')


def generate(seed, tier):
    g = Gen(seed)
    big = 20000 if tier == 'quick' else 200000
    scn = S.session(g.int(0, 1 << 60), KINDS, nmax=6, big=big)
    if g.chance(0.3):
        # make multi-WRITE pushes common: small maxdata, content several times larger
        scn['device']['maxdata'] = g.pick([4096, 4097, 8192])
        scn['actors'][0].append({'op': 'push', 'src': 'bytesio', 'content': {'seed': g.int(0, 1 << 30), 'size': g.int(5000, 40000), 'alpha': 'bin'},
                                 'path': '/data/local/tmp/multi', 'mtime': g.pick([0, 5])})
    c = g.int(0, 9)
    d = scn['device']
    d['inflight_on_close'] = g.chance(0.7)
    if c <= 1:
        # the device rejects a multi-WRITE push; its FAIL may overtake the OKAY it races with
        d['maxdata'] = g.pick([4096, 8192])
        d['push_fail'] = {'at': g.pick(['send', 'data']), 'n': g.int(1, 3), 'reason': b'Read-only file system'.hex(), 'cut_reason': g.chance(0.3), 'path': '/data/local/tmp/rejected'}
        d['fail_before_okay'] = g.chance(0.6)
        if g.chance(0.4):
            d['push_fail']['delay'] = g.pick([0.0005, 0.005])
        scn['actors'][0].append({'op': 'push', 'src': 'bytesio', 'content': {'seed': g.int(0, 1 << 30), 'size': g.int(9000, 40000), 'alpha': 'bin'}, 'path': '/data/local/tmp/rejected', 'mtime': 4})
    elif c <= 3:
        # the local destination fails in the middle of a multi-record pull: the stream is closed while the device still has data to send
        p = S.add_file(g, d, 20000)
        d['fs'][p]['content']['size'] = g.int(3000, 30000)
        d['fs'][p]['records'] = [g.pick([500, 1000, 2000])]
        d['cut_plans'] = [{'policy': g.pick(['record', 'random', 'straddle']), 'seed': g.int(0, 999)}]
        scn['actors'][0].append({'op': 'pull', 'path': p, 'dest': 'failing', 'fail_after': g.int(0, 3)})
    elif c == 4:
        # the device's sync service dies in the middle of a pull: DATA..., then CLSE (no DONE): exactly one host CLSE must answer it
        p = S.add_file(g, d, 20000)
        d['fs'][p]['content']['size'] = g.int(3000, 20000)
        d['fs'][p]['records'] = [g.pick([500, 1000, 2000])]
        d.setdefault('recv_close', {})[p] = {'n': g.int(0, 3)}
        scn['actors'][0].append({'op': 'pull', 'path': p, 'dest': 'bytesio', 'rt': 2.0, 'tt': 1.0})
    elif c == 5:
        # the OKAY for one host WRITE of a multi-WRITE push comes later than read_timeout_s: the host must give up, not send again
        d['maxdata'] = 4096
        d['ack_delay'] = {'nth': g.int(0, 2), 'delay': 1.5}
        if g.chance(0.6):
            scn['config']['idle_returns_empty'] = True      # the wait ends in the library's own AdbTimeoutError, not the transport's
            scn['config']['idle_cost'] = 0.05
        d.pop('push_fail', None)
        scn['actors'][0].append({'op': 'push', 'src': 'bytesio', 'content': {'seed': g.int(0, 1 << 30), 'size': g.int(9000, 20000), 'alpha': 'bin'}, 'path': '/data/local/tmp/slow',
                                 'mtime': 4, 'rt': 0.25, 'tt': 0.2, 'expect_timeout': True})
    elif c == 6:
        # two streams alive at once in one thread: a streaming_shell generator is read part-way, other commands run, then it is
        # finished -- the inner commands' reads take the outer stream's packets (its CLSE included) off the wire
        name = S.add_cmd(g, d, 3000)
        spec = d['cmds'][name]
        if g.chance(0.5):
            spec['cuts'] = []                   # one WRITE, then CLSE: the CLSE arrives while the inner command reads
        inner = []
        for _ in range(g.int(1, 2)):
            k = g.pick(['shell', 'exec_out', 'stat', 'list'])
            if k in ('shell', 'exec_out'):
                inner.append({'op': k, 'cmd': S.add_cmd(g, d, 500), 'decode': g.chance(0.5)})
            elif k == 'stat':
                inner.append({'op': 'stat', 'path': S.add_file(g, d, 100)})
            else:
                inner.append({'op': 'list', 'path': S.add_dir(g, d, 4)})
        scn['actors'][0].append({'op': 'streaming_shell', 'cmd': name, 'decode': g.chance(0.5), 'nested': inner, 'nested_after': g.pick([1, 1, 2])})
    elif c == 7:
        # a streaming_shell consumer that stops early (break / close() / dropped reference) while connected: every chunk it was
        # handed has been acknowledged, nothing more is sent on that stream
        name = S.add_cmd(g, d, 3000)
        scn['actors'][0] += [{'op': 'ss_create', 'cmd': name, 'decode': g.chance(0.5)}, {'op': 'ss_next', 'n': g.int(1, 3)}, {'op': 'ss_drop', 'how': g.pick(['close', 'del'])}]
        if g.chance(0.5):
            scn['actors'][0].append({'op': 'shell', 'cmd': S.add_cmd(g, d, 300), 'decode': False})
    elif c == 8 and g.chance(0.5):
        # a tiny maxdata and device paths longer than it: the sync request itself does not fit into one WRITE of that size;
        # whatever the library does about that, it is still one WRITE at a time
        d['maxdata'] = g.pick([256, 300, 512])
        long = '/data/' + 'd' * g.int(260, 600)
        S.add_file(g, d, 2000, path=long + '/f')
        d['fs'][long + '/f']['records'] = [max(r, 64) for r in d['fs'][long + '/f']['records']]
        for plan in d['cut_plans']:
            if plan['policy'] in ('one', 'tiny'):
                plan['policy'] = 'random'      # the added traffic was not part of the session's sizing
        if scn['config'].get('frag') == 'one':
            scn['config']['frag'] = 'mixed'
        d['dirs'][long] = [[b'f'.hex(), 0o100644, 10, 5]]
        for k in range(g.int(1, 3)):
            kind = g.pick(['stat', 'list', 'pull', 'push'])
            if kind == 'stat':
                scn['actors'][0].append({'op': 'stat', 'path': long + '/f'})
            elif kind == 'list':
                scn['actors'][0].append({'op': 'list', 'path': long})
            elif kind == 'pull':
                scn['actors'][0].append({'op': 'pull', 'path': long + '/f', 'dest': 'bytesio'})
            else:
                scn['actors'][0].append({'op': 'push', 'src': 'bytesio', 'content': {'seed': g.int(0, 99), 'size': g.int(0, 2000), 'alpha': 'bin'}, 'path': long + '/p%d' % k, 'mtime': 3})
    elif c == 9:
        # a command given timeout_s that writes in time and exits (CLSE) only after the deadline, every single wait being shorter than
        # any of the timeouts: whatever the call then does, the device's CLSE is answered by exactly one CLSE
        name = S.add_cmd(g, d, 100)
        spec = d['cmds'][name]
        spec['content']['size'] = g.int(0, 200)
        spec['cuts'] = []
        spec['think'] = [0.6]
        spec['exit_delay'] = g.pick([0.6, 0.9])
        d['latency'] = {'mode': 'zero'}
        scn['actors'][0].append({'op': g.pick(['shell', 'streaming_shell']), 'cmd': name, 'decode': False, 'to': 1.0, 'late_exit': True})
    if g.chance(0.15) and 4096 <= d['maxdata'] <= 16384:
        # destinations right up to what fits into one message of this device (OPEN payload = destination + NUL <= maxdata)
        k = g.pick(['shell', 'exec_out', 'streaming_shell'])
        pad = d['maxdata'] - len((('shell:' if k != 'exec_out' else 'exec:')).encode()) - 1 - g.pick([0, 0, 1, 2, 17, -1, -40])     # the last two overshoot: the library does not limit destinations; the NUL clause holds there too
        name = S.add_cmd(g, d, 300, name='echo ' + 'x' * (pad - 5))
        scn['actors'][0].append({'op': k, 'cmd': name, 'decode': False})
    if g.chance(0.06):
        d['wrte_zero'] = True       # WRITEs arrive with remote id 0: every later host packet still carries the id announced in the OKAY
    if g.chance(0.1):
        # the device refuses exec: with CLSE(0, id): no OKAY, no remote id -- the host has nothing to say on that stream any more
        d['refuse'] = ['exec:']
        if not any(op['op'] == 'exec_out' for op in scn['actors'][0]):
            scn['actors'][0].append({'op': 'exec_out', 'cmd': S.add_cmd(g, d, 100), 'decode': False})
        for op in scn['actors'][0]:
            for o2 in [op] + list(op.get('nested') or []):
                if o2['op'] == 'exec_out':
                    o2.update({'rt': 0.5, 'tt': 0.3, 'expect_timeout': True})
                    o2.pop('to', None)
    return {'seed': seed, 'scn': scn}


def evaluate(case, tapes=None):
    out = blank()
    scn = case['scn']
    run, tape = run_scn(case, 'scn', 0, tapes)
    absorb(out, run, tape)
    probs = O.monitors(run, ('c04',)) + O.check_session(run, scn) + termination(run)
    if scn['device']['maxdata'] < 4096:
        # payload size against a maxdata below the legacy 4 KiB is outside every listed property (C07 quantifies over >= 4 KiB); C04's clauses do not mention size
        probs = [p for p in probs if 'exceeds device maxdata' not in p[1]]
    dev = run.device
    recs = run.results[0]
    all_ok = all(r['ok'] for r in recs)
    multi = False
    pr = out['probes']
    # streams whose generator the caller abandoned part-way: what the device sends afterwards is never delivered to anybody, so
    # neither an OKAY nor a CLSE is owed for it; what *was* handed to the caller must have been acknowledged, once each
    abandoned = {}
    for r in recs:
        if r['op'] == 'ss_next' and r['ok']:
            for s in dev.all_streams:
                if r['pk0'] <= s.open_pk < r['pk1']:
                    abandoned[s.sid] = len(r['value'])
    consumed_later = any(r['op'] == 'ss_consume' for r in recs)
    for s in dev.all_streams:
        if s.sid in abandoned and not consumed_later:
            if all_ok and not run.abort and s.host_okays != abandoned[s.sid]:
                probs.append(O.P('unacked-write', 'stream %d (%s): the caller was handed %d chunk(s) before it abandoned the generator, the host sent %d OKAY(s)' % (s.local, s.dest[:20], abandoned[s.sid], s.host_okays)))
            continue
        if len(s.recv_payloads) >= 2:
            multi = True
            pr['c04_multi_wrte_push'] = pr.get('c04_multi_wrte_push', 0) + 1
        if len(s.sent_payloads) >= 2:
            multi = True
        if any(len(p) == 0 for p in s.read_payloads) and s.host_okays:
            pr['empty_payload_wrte_acked'] = pr.get('empty_payload_wrte_acked', 0) + 1
        if all_ok and not run.abort:
            # every device WRITE delivered to a call that returned normally was acknowledged exactly once
            if s.read_unacked != 0:
                probs.append(O.P('unacked-write', 'stream %d (%s): %d device WRITE(s) were read by the host but never acknowledged' % (s.local, s.dest[:20], s.read_unacked)))
            shell_family = s.dest.startswith((b'shell:', b'exec:', b'root:'))
            if shell_family and s.dev_clse_read and s.host_clse_count != 1:
                probs.append(O.P('clse-count', 'stream %d (%s): device CLSE was delivered, host sent %d CLSE' % (s.local, s.dest[:20], s.host_clse_count)))
    for r in recs:
        # the command that exits after its timeout_s: whether the call returns the output or reports the timeout, a CLSE it has read is answered
        if r['spec'].get('late_exit') and not run.abort and (r['ok'] or r.get('exc') == 'AdbTimeoutError') and not all_ok:
            for s in dev.all_streams:
                if r['pk0'] <= s.open_pk < r['pk1'] and s.dev_clse_read and s.host_clse_count != 1:
                    probs.append(O.P('clse-count', 'stream %d (%s): the device CLSE (sent after timeout_s had passed) was read, host sent %d CLSE' % (s.local, s.dest[:20], s.host_clse_count)))
    if any(r.get('nested') for r in recs):
        pr['c04_nested_streams'] = 1
    if any(r['op'] == 'ss_drop' for r in recs):
        pr['c04_abandoned_generator'] = 1
    if scn['device']['maxdata'] < 4096 and any(p[1] == 'WRTE' and p[4] > scn['device']['maxdata'] for p in dev.host_pkts):
        pr['c04_request_longer_than_maxdata'] = 1
    if any(p[1] == 'OPEN' and p[4] >= dev.maxdata - 2 for p in dev.host_pkts):
        pr['c04_open_fills_maxdata'] = 1
    if len(dev.all_streams) >= 4:
        pr['c04_ge_4_streams'] = pr.get('c04_ge_4_streams', 0) + 1
    out['violations'] = [p for p in probs if p[0] in OWN]
    out['nontrivial'] = len(dev.all_streams) >= 2 and multi
    out['digest'] = run.digest()
    out['sample'] = brief_scn(scn, run)
    out['sample']['streams'] = dev.summary_streams()[:6]
    return out
