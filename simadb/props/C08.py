"""C08 — pull writes exactly the device file, for every device chunking."""
import copy

from .. import oracles as O
from .. import scenario as S
from ..tape import Gen
from .common import absorb, blank, brief_scn, run_scn, termination

ID = 'C08'
LEVEL = 'exploration'
TIERS = {'quick': 5000, 'thorough': 150000}
RULE = ('seeded pulls: device file content/size (0 .. big), DATA record size sequences (1 .. 64 KiB), WRTE boundaries anywhere incl. inside the 8-byte '
        'sync header (cut policies whole/record/random/tiny/straddle/one), zero-length DATA records and zero-length WRTEs in between, all read fragmentations, destination path or BytesIO, callback absent / '
        'counting / raising (=> nested stat stream), sometimes preceded by a pull whose destination fails mid-transfer; cases with a callback are re-run without it and destinations compared. '
        'non-trivial = a sync header was split across two WRTEs; distinct = event-log digests')
ASSUMPTIONS = ['adbd keeps serving the sync connection after RECV; the host closes the stream']
EXPECT_PROBES = {'all': ['sync_header_split_across_wrte', 'c08_callback', 'c08_file_dest', 'c08_multi_record', 'c08_aborted_pull_first', 'recv_empty_data_record', 'sync_empty_wrte_between_pieces']}
OWN = ('wrong-result', 'unexpected-exception', 'timeout-instead-of-result', 'missing-exception', 'wrong-exception', 'hang', 'no-termination',
       'callback-count', 'pull-requests', 'pull-not-closed', 'cb-changes-result', 'unacked-write')


def generate(seed, tier):
    g = Gen(seed)
    big = 60000 if tier == 'quick' else 3000000
    d = S.gen_device(g)
    d['cut_plans'] = [{'policy': g.pick(['straddle', 'straddle', 'random', 'tiny', 'record', 'whole', 'one']), 'seed': g.int(0, 1 << 30)} for _ in range(g.int(1, 3))]
    ops = []
    total = 0
    for _ in range(g.int(1, 2)):
        p = S.add_file(g, d, big if g.chance(0.3) else 5000)
        total += d['fs'][p]['content']['size']
        ops.append(S.timeouts(g, {'op': 'pull', 'path': p, 'dest': g.pick(['bytesio', 'file', 'file', 'pathlib', 'bytes_path']), 'cb': g.pick([None, 'count', 'raise', 'raise_base'])}))
        if ops[-1]['dest'] != 'bytesio' and g.chance(0.3):
            ops[-1]['prefill'] = g.pick([1, 100, d['fs'][p]['content']['size'] + g.pick([1, 500]), 200000])      # an existing, possibly longer destination is replaced
        if g.chance(0.15):
            # what STAT says about the file is not what RECV delivers (a file that grows, /proc entries with st_size 0, a symlink's lstat)
            f = d['fs'][p]
            d.setdefault('stat_override', {})[p] = [f['mode'], g.pick([0, f['content']['size'] // 2, 1, f['content']['size'] + 100]), f['mtime']]
    if g.chance(0.12):
        # DATA records without data between the others (a device-side read that returned nothing yet)
        for p in [op['path'] for op in ops]:
            d['fs'][p]['empty_every'] = g.pick([1, 2, 3])
    if g.chance(0.12):
        d['empty_wrte_in_sync'] = g.pick([1, 1, 2, 5])       # WRITEs without payload between the WRITEs of a sync reply
    if g.chance(0.15):
        # the destination fails in the middle of a multi-record pull; the next pull on the same connection must be unaffected
        p0 = S.add_file(g, d, 20000)
        d['fs'][p0]['content']['size'] = g.int(3000, 30000)
        d['fs'][p0]['records'] = [g.pick([500, 1000, 2000])]
        ops.insert(0, {'op': 'pull', 'path': p0, 'dest': 'failing', 'fail_after': g.int(0, 3)})
    total = sum(S.sync_stream_size(d, op['path']) for op in ops)      # what crosses the wire, record headers included
    for plan in d['cut_plans']:
        if plan['policy'] == 'one' and total > 3000:
            plan['policy'] = 'straddle'
        if plan['policy'] == 'tiny' and total > 40000:
            plan['policy'] = 'random'
    cfg = S.gen_config(g, total)
    scn = {'api': g.pick(['sync', 'async']), 'transport': 'mem', 'device': d, 'config': cfg, 'actors': [[S.timeouts(g, {'op': 'connect'})] + ops], 'object': {'banner': 'simhost'}}
    return {'seed': seed, 'scn': scn}


def evaluate(case, tapes=None):
    out = blank()
    scn = case['scn']
    run, tape = run_scn(case, 'scn', 0, tapes, seed_idx=0)
    absorb(out, run, tape)
    probs = O.check_session(run, scn) + termination(run)
    dev = run.device
    pr = out['probes']
    ops = scn['actors'][0]
    recs = run.results[0]
    for i, rec in enumerate(recs):
        if rec['op'] != 'pull' or not rec['ok']:
            continue
        op = rec['spec']
        # streams opened during this call
        mine = [s for s in dev.all_streams if rec['pk0'] <= s.open_pk < rec['pk1']]
        recv = [s for s in mine if ('RECV', op['path']) in getattr(s, 'sync_reqs', [])]
        nreq = sum(1 for s in mine for r in getattr(s, 'sync_reqs', []) if r[0] == 'RECV')
        if len(recv) != 1 or nreq != 1:
            probs.append(O.P('pull-requests', 'op#%d pull: %d RECV requests seen by the device, expected exactly one for %r' % (i, nreq, op['path'][:40])))
        for s in mine:
            if s.host_clse_count != 1:
                probs.append(O.P('pull-not-closed', 'op#%d pull: stream %d (%s) saw %d host CLSE, expected exactly one' % (i, s.local, getattr(s, 'sync_reqs', []), s.host_clse_count)))
            if s.read_unacked:
                probs.append(O.P('unacked-write', 'op#%d pull: %d device WRITE(s) on stream %d never acknowledged' % (i, s.read_unacked, s.local)))
        f = scn['device']['fs'].get(op['path'])
        if f and f['content']['size'] > max(f.get('records') or [65536]):
            pr['c08_multi_record'] = 1
        if op.get('dest') == 'file':
            pr['c08_file_dest'] = 1
    if any(op.get('dest') == 'failing' for op in ops):
        pr['c08_aborted_pull_first'] = 1
    has_cb = any(op.get('cb') for op in ops)
    if has_cb:
        pr['c08_callback'] = 1
        s2 = copy.deepcopy(scn)
        for op in s2['actors'][0]:
            op.pop('cb', None)
        c2 = dict(case)
        c2['scn_nocb'] = s2
        run2, tape2 = run_scn(c2, 'scn_nocb', 1, tapes, seed_idx=0)
        absorb(out, run2, tape2)
        a = [(r['ok'], r.get('dest_bytes')) for r in recs if r['op'] == 'pull']
        b = [(r['ok'], r.get('dest_bytes')) for r in run2.results[0] if r['op'] == 'pull']
        if a != b:
            probs.append(O.P('cb-changes-result', 'destination bytes differ with and without the progress callback'))
    out['violations'] = [p for p in probs if p[0] in OWN]
    out['nontrivial'] = run.probes.get('sync_header_split_across_wrte', 0) > 0
    out['digest'] = run.digest()
    out['sample'] = brief_scn(scn, run)
    out['sample']['files'] = {k[-16:]: (v['content']['size'], v['records']) for k, v in list(scn['device']['fs'].items())[:3]}
    out['sample']['cut_plans'] = [p['policy'] for p in scn['device']['cut_plans']]
    return out
