"""Shared plumbing for property modules."""
from ..runner import execute
from ..tape import Tape, h64
from .. import oracles as O


def run_scn(case, key, idx, tapes, seed_idx=None):
    """Execute case[key] with the idx-th tape of the case. Returns (run, tape).
    seed_idx: paired (differential) executions share the tape seed, so that device-side
    decisions (ids, tokens, adversary, latencies) coincide and only the varied dimension differs."""
    rec = None
    if tapes is not None:
        if idx < len(tapes):
            rec = tapes[idx]
        elif seed_idx is not None and seed_idx < len(tapes):
            rec = tapes[seed_idx]
        else:
            rec = {}
    tape = Tape(h64(case['seed'], 'exec', idx if seed_idx is None else seed_idx), recorded=rec)
    run = execute(case[key], tape)
    return run, tape


def blank():
    return {'violations': [], 'known': [], 'probes': {}, 'nontrivial': False, 'digest': 0, 'sim_s': 0.0, 'sample': None,
            'tapes': [], 'inter': [], 'states': [], 'execs': 0, 'notes': []}


def absorb(out, run, tape):
    for k, v in run.probes.items():
        out['probes'][k] = out['probes'].get(k, 0) + v
    out['sim_s'] += run.clock.elapsed()
    out['tapes'].append(tape.recorded())
    out['execs'] += 1
    if run.sched is not None and run.sched.switches:
        out['inter'].append(h64(run.sched.switches))


def termination(run):
    """A run that had to be aborted (hang, deadlock, step cap)."""
    if run.abort:
        tag = {'deadlock': 'deadlock', 'hang': 'hang', 'step-cap': 'no-termination'}.get(run.abort, 'no-termination')
        return [O.P(tag, 'run aborted: %s %s %s' % (run.abort, getattr(run, 'abort_msg', ''), run.deadlock or ''))]
    return []


def brief_scn(scn, run=None):
    """A compact, readable description of a scenario for evidence samples."""
    d = scn['device']
    s = {'api': scn.get('api'), 'transport': scn.get('transport', 'mem'), 'maxdata': d.get('maxdata'), 'close': d.get('close_mode'),
         'frag': scn.get('config', {}).get('frag'), 'actors': []}
    for ops in scn['actors']:
        a = []
        for op in ops[:8]:
            t = op['op']
            if 'cmd' in op:
                c = d['cmds'].get(op['cmd'], {})
                t += '(%dB/%s cuts=%s dec=%s)' % (c.get('content', {}).get('size', 0), c.get('content', {}).get('alpha'), (c.get('cuts') or [])[:6], op.get('decode'))
            elif op['op'] == 'push':
                t += '(%s %s)' % (op.get('src'), op.get('content', {}).get('size', [f['name'] for f in op.get('files', [])]))
            elif 'path' in op:
                t += '(%s)' % op['path'][:24]
            a.append(t)
        s['actors'].append(a)
    if scn.get('config', {}).get('faults'):
        s['faults'] = scn['config']['faults']
    if run is not None:
        s['results'] = [[(r['op'], 'ok' if r['ok'] else r['exc']) for r in a[:8]] for a in run.results]
        s['transport_calls'] = run.link.ncalls
    return s


def only(tags, probs):
    return [p for p in probs if p[0] in tags]


def exc_chain(rec):
    """Names of the raised exception and of everything in its __context__/__cause__ chain."""
    out = []
    e = rec.get('exc_obj')
    seen = 0
    while e is not None and seen < 10:
        out.append(type(e).__name__)
        e = e.__cause__ or e.__context__
        seen += 1
    if not out and rec.get('exc'):
        out.append(rec['exc'])
    return out
