"""C05 — CNXN/AUTH handshake follows the ADB authentication state machine."""
import os

from .. import oracles as O
from .. import scenario as S
from .. import wire as W
from ..device import android_pubkey_numbers
from ..runner import KEYDIR, pubnums
from ..tape import Gen, h64
from .common import absorb, blank, run_scn, termination

ID = 'C05'
LEVEL = 'exploration'
TIERS = {'quick': 4000, 'thorough': 150000}
RULE = ('seeded connect() histories: 0..4 keys drawn from four fixture key pairs through all three shipped signer classes; the device accepts none / the k-th '
        'key / only the public key (after a think time, late, or never); fresh random 20-byte token per challenge; CNXN maxdata values; stray packets before '
        'answers; a non-token challenge at a chosen step; auth callback absent / present / raising; 1-3 consecutive connect() calls on one object; then the '
        'adopted maxdata is observed through max_chunk_size and a push. The device verifies each signature as adbd does (RSASSA-PKCS1-v1_5 over the token as a '
        'SHA-1 digest, pure-integer check against the fixture public numbers) and the host packet log is compared with a reference handshake model. '
        'non-trivial = >= 2 keys offered and >= 1 signature rejected; distinct = event-log digests')
ASSUMPTIONS = ['fixture keys were generated with `cryptography`, independently of adb_shell.auth.keygen', 'auth_timeout_s=None with a silent device is excluded (documented wait-forever)']
EXPECT_PROBES = {'all': ['c05_pubkey_offered', 'c05_key_accepted', 'c05_bad_challenge', 'c05_no_keys', 'c05_reconnect', 'c05_callback', 'c05_silent_pubkey', 'auth_rechallenge_after_pubkey', 'auth_silent_after_signature', 'c05_auth_timeout_none', 'c05_banner_not_utf8', 'c05_maxdata_above_1mib', 'c05_pubkey_non_ascii_comment', 'stray_before_answer',
                         'c05_signer_pycryptodome', 'c05_signer_cryptography', 'c05_signer_pythonrsa']}
OWN = ('first-packet', 'signature-invalid', 'signature-order', 'signature-count', 'packet-after-cnxn', 'pubkey-early', 'pubkey-wrong', 'pubkey-missing', 'callback-count',
       'wrong-result', 'wrong-exception', 'missing-exception', 'unexpected-exception', 'timeout-instead-of-result', 'available-wrong', 'maxdata-wrong', 'auth-wait-short',
       'hang', 'no-termination', 'wrte-over-maxdata')
SIGNERS = ['pythonrsa', 'cryptography', 'pycryptodome', 'pythonrsa_u']
_PUBTXT = {}


def pubtext(i):
    if i not in _PUBTXT:
        with open(os.path.join(KEYDIR, 'key%d.pub' % i), 'rb') as f:
            _PUBTXT[i] = f.read()
    return _PUBTXT[i]


def generate(seed, tier):
    g = Gen(seed)
    d = S.gen_device(g)
    d['latency'] = g.pick([{'mode': 'zero'}, {'mode': 'small', 'max': 0.01}])
    d['maxdata'] = g.pick([4096, 4096, 8192, 16384, 65536, 100000, 262144, 1048576])
    nconn = g.pick([1, 1, 2, 3])
    auths = []
    ops = []
    banner = g.pick(['simhost', 'h', 'höst-ü'])
    for c in range(nconn):
        nk = g.pick([0, 1, 2, 3, 4])
        idxs = [0, 1, 2, 3]
        g.r.shuffle(idxs)
        keys = [[idxs[i], g.pick(SIGNERS)] for i in range(nk)]
        mode = g.int(0, 9)
        a = {'pubkey': g.pick(['accept', 'accept', 'late', 'silent', 'rechallenge_accept', 'rechallenge_silent']), 'think_s': g.pick([0.0, 0.5, 3.0]), 'late_s': g.pick([0.5, 2.0, 20.0]), 'accept_key': None}
        if mode == 0:
            a = None        # no authentication required
        elif mode <= 5 and nk:
            a['accept_key'] = keys[g.int(0, nk - 1)][0]
        elif mode == 6:
            a['accept_key'] = idxs[3]   # a key the host may not have at all
        if a is not None:
            if g.chance(0.15):
                a['bad_challenge_at'] = g.int(0, 3)
                a['bad_challenge_arg0'] = g.pick([0, 2, 3, 7])
            if g.chance(0.1) and nk:
                a['silent_after_sig'] = g.int(0, nk - 1)
            if g.chance(0.3):
                a['stray'] = [[g.pick(['OKAY', 'CLSE', 'WRTE']), g.int(1, 1 << 31), g.int(1, 9)] + ([g.bytes(3).hex()] if False else []) for _ in range(g.int(1, 2))]
                for s in a['stray']:
                    if s[0] == 'WRTE':
                        s.append(g.bytes(g.int(1, 5)).hex())
                a['stray_each'] = g.chance(0.5)
        auths.append(a)
        at = g.pick([1.0, 5.0, 10.0])
        if a is not None and a['pubkey'] in ('accept', 'late', 'rechallenge_accept') and g.chance(0.2):
            at = None       # wait for the user for as long as it takes (the device does answer in the end)
        op = {'op': 'connect', 'keys': keys if (nk or g.chance(0.5)) else None, 'at': at, 'rt': g.pick([2.0, 10.0]), 'auth_cb': g.pick([None, 'ok', 'ok', 'raise'])}
        if g.chance(0.3):
            op['tt'] = g.pick([1.0, 3.0])
        ops.append(op)
        ops.append({'op': 'available'})
    ops.append({'op': 'maxchunk'})
    ops.append({'op': 'push', 'src': 'bytesio', 'content': {'seed': 5, 'size': g.pick([100, 9000, 70000]), 'alpha': 'bin'}, 'path': '/data/local/tmp/after', 'mtime': 3})
    d['auth'] = auths
    if g.chance(0.04):
        # a device that takes more per message than the host's own 1 MiB: that is the device's limit, and it is adopted as announced
        d['maxdata'] = g.pick([2097152, 3145728])
        ops[-1]['content'] = {'seed': 5, 'size': d['maxdata'] + g.pick([100000, 300000]), 'alpha': 'zero'}
    if g.chance(0.12):
        # whatever the device calls itself in its CNXN payload (no state prefix, an unknown state, nothing at all): a CNXN is a CNXN
        d['banner_hex'] = g.pick([b'', b'\x00', b'device\x00', b'emulator-5554\x00', b'Device::ro.product.name=x', b'offline::', b'unauthorized::x', b'host::features=cmd', b'sideload::ro.product.name=x', b'rescue::', b'recovery::ro.product.name=x', b'bootloader::']).hex() or '00'
    elif g.chance(0.15):
        d['banner_hex'] = g.pick([b'device::ro.product.model=Caf\xe9 Phone;ro.product.name=x', b'device::\xff\xfe\x00\x80binary', b'device::ro.product.model=\xc4\xe3\xba\xc3;features=cmd\x00\xc3']).hex()
    cfg = {'frag': g.pick(['whole', 'mixed', 'boundary']), 'call_cost': 1e-5, 'idle_cost': 0.05}
    scn = {'api': g.pick(['sync', 'async']), 'transport': 'mem', 'device': d, 'config': cfg, 'actors': [ops], 'object': {'banner': banner}}
    return {'seed': seed, 'scn': scn}


def model_connect(op, a):
    """Reference outcome of one connect(): ('ok', nsig, pubkey_offered) | ('exc', names, nsig, pubkey_offered)."""
    keys = op.get('keys') or []
    if a is None:
        return ('ok', 0, False, False)
    if not keys:
        return ('exc', ('DeviceAuthError',), 0, False, False)
    bad = a.get('bad_challenge_at')
    for i, (idx, kind) in enumerate(keys):
        if bad is not None and bad == i:
            return ('exc', ('InvalidResponseError',), i, False, False)
        if a.get('silent_after_sig') == i:
            # no answer to this signature: the key was not rejected, so nothing else may be tried or offered
            return ('exc', O.TIMEOUT_EXCS, i + 1, False, False)
        if a.get('accept_key') == idx:
            return ('ok', i + 1, False, False)
    n = len(keys)
    cb = op.get('auth_cb')
    if cb == 'raise':
        return ('exc', ('RuntimeError',), n, False, True)
    pol = a.get('pubkey', 'accept')
    at = op.get('at', 10.0)
    if at is None:
        at = float('inf')
    if pol.startswith('rechallenge'):
        # another AUTH(TOKEN) after the public key changes nothing: only the final CNXN counts
        pol = 'accept' if pol == 'rechallenge_accept' else 'silent'
    if pol == 'accept':
        return ('ok', n, True, bool(cb)) if a.get('think_s', 0.0) < at else ('exc', O.TIMEOUT_EXCS, n, True, bool(cb))
    if pol == 'late':
        return ('ok', n, True, bool(cb)) if a.get('late_s', 1.0) < at else ('exc', O.TIMEOUT_EXCS, n, True, bool(cb))
    return ('exc', O.TIMEOUT_EXCS, n, True, bool(cb))


def evaluate(case, tapes=None):
    out = blank()
    scn = case['scn']
    run, tape = run_scn(case, 'scn', 0, tapes)
    absorb(out, run, tape)
    probs = termination(run)
    dev = run.device
    recs = run.results[0]
    auths = scn['device']['auth']
    banner = scn['object']['banner'].encode('utf8')
    pubs = pubnums()
    pr = out['probes']
    conn_i = 0
    connected = False
    maxdata = None
    sessions = dev.auth_log[1:]      # [0] is the pre-connection placeholder
    nontrivial = False
    for i, rec in enumerate(recs):
        op = rec['spec']
        k = op['op']
        if rec.get('exc') in ('SimAbort', 'SimHang'):
            break
        if k == 'connect':
            a = auths[min(conn_i, len(auths) - 1)]
            sess = sessions[conn_i] if conn_i < len(sessions) else None
            conn_i += 1
            if conn_i > 1:
                pr['c05_reconnect'] = 1
            exp = model_connect(op, a)
            where = 'connect#%d' % conn_i
            if scn['device'].get('banner_hex') and rec['ok']:
                pr['c05_banner_not_utf8'] = 1
            keys = op.get('keys') or []
            for (_, kind) in keys:
                pr['c05_signer_' + kind] = 1
            # -- outcome
            if exp[0] == 'ok':
                connected = True
                maxdata = scn['device']['maxdata']
                if not rec['ok']:
                    tag = 'timeout-instead-of-result' if rec['exc'] in O.TIMEOUT_EXCS else 'unexpected-exception'
                    probs.append(O.P(tag, '%s raised %s (%s); the device model answers CNXN (keys=%r, accepts key %r, pubkey policy %r)' % (where, rec['exc'], rec.get('msg'), keys, a and a.get('accept_key'), a and a.get('pubkey'))))
                    connected = False
                elif rec['value'] is not True:
                    probs.append(O.P('wrong-result', '%s returned %r, expected True' % (where, rec['value'])))
            else:
                connected = False
                if rec['ok']:
                    probs.append(O.P('missing-exception', '%s returned %r, expected %s' % (where, rec['value'], '/'.join(exp[1]))))
                    connected = bool(rec['value'])
                    maxdata = scn['device']['maxdata']
                elif rec['exc'] not in exp[1]:
                    probs.append(O.P('wrong-exception', '%s raised %s (%s), expected %s' % (where, rec['exc'], rec.get('msg'), '/'.join(exp[1]))))
            if rec.get('avail1') != (exp[0] == 'ok' and rec['ok']) and not (exp[0] != 'ok' and rec['ok']):
                probs.append(O.P('available-wrong', '%s: available is %r afterwards (outcome %s)' % (where, rec.get('avail1'), 'ok' if rec['ok'] else rec['exc'])))
            # -- host packet log of this session vs the reference handshake
            if sess is None:
                continue
            fp = sess['first_pkt']
            want_first = ('CNXN', W.A_VERSION, W.HOST_MAXDATA, b'host::' + banner + b'\0')
            if fp is None or tuple(fp) != want_first:
                probs.append(O.P('first-packet', '%s: first packet is %r, expected CNXN(0x01000000, 1048576, %r)' % (where, fp and (fp[0], fp[1], fp[2], fp[3][:40]), want_first[3])))
            nsig_want = exp[-3] if exp[0] == 'exc' else exp[1]
            sigs = sess['sigs']
            if a is None:
                pr['c05_no_auth'] = 1
            if not keys and a is not None:
                pr['c05_no_keys'] = 1
            if len(sigs) != nsig_want:
                probs.append(O.P('signature-count', '%s: host sent %d signatures, the reference model says %d (keys=%r, accepted=%r, bad challenge at %r)' % (where, len(sigs), nsig_want, keys, a and a.get('accept_key'), a and a.get('bad_challenge_at'))))
            for j, sg in enumerate(sigs):
                if j >= len(keys):
                    break
                idx = keys[j][0]
                if sg['after_challenge'] != j:
                    probs.append(O.P('signature-order', '%s: signature #%d was sent after challenge #%d' % (where, j, sg['after_challenge'])))
                if idx not in sg['valid_for']:
                    who = 'key %r' % sg['valid_for'] if sg['valid_for'] else ('an OLDER token under key %r' % sg['valid_for_older_token'] if sg['valid_for_older_token'] else 'no fixture key / no token')
                    probs.append(O.P('signature-invalid', '%s: signature #%d (signer %s, key %d) does not verify under key %d over the most recent token; it verifies for %s' % (where, j, keys[j][1], idx, idx, who)))
            if len(sigs) >= 1 and len(keys) >= 2 and (len(sigs) >= 2 or exp[0] == 'exc'):
                nontrivial = True
            if sess['after_cnxn']:
                probs.append(O.P('packet-after-cnxn', '%s: host sent %r after the device\'s CNXN' % (where, sess['after_cnxn'])))
            offered = sess['pubkey'] is not None
            want_offer = exp[-2]
            if offered and not want_offer:
                probs.append(O.P('pubkey-early', '%s: public key offered although not every key had been rejected (model: %r)' % (where, exp)))
            if want_offer and not offered:
                probs.append(O.P('pubkey-missing', '%s: all %d keys rejected but no public key was offered' % (where, len(keys))))
            if offered:
                pr['c05_pubkey_offered'] = 1
                blob = sess['pubkey']
                want_blob = pubtext(keys[0][0]) + b'\0' if keys else None
                if keys and keys[0][1] == 'pythonrsa_u':
                    want_blob = pubtext(keys[0][0]).split(b' ')[0] + ' j\u00fcrgen@b\u00fcro-pc'.encode('utf8') + b'\0'
                    pr['c05_pubkey_non_ascii_comment'] = 1
                ok = False
                try:
                    n, e = android_pubkey_numbers(blob.split(b' ')[0].rstrip(b'\0'))
                    ok = keys and (n, e) == pubs[keys[0][0]]
                except Exception:   # noqa
                    ok = False
                if not ok or blob != want_blob or not blob.endswith(b'\0'):
                    probs.append(O.P('pubkey-wrong', '%s: AUTH(RSAPUBLICKEY) payload is not the first key\'s public key + NUL (%d bytes, decodes to first key: %r)' % (where, len(blob), ok)))
                at_eff = float('inf') if op.get('at', 10.0) is None else op.get('at', 10.0)
                if at_eff == float('inf') and rec['ok']:
                    pr['c05_auth_timeout_none'] = 1
                if a.get('pubkey') in ('silent', 'rechallenge_silent') or (a.get('pubkey') == 'late' and a.get('late_s', 1.0) >= at_eff):
                    pr['c05_silent_pubkey'] = 1
                    if not rec['ok'] and sess.get('pubkey_time') is not None and rec['t1'] - sess['pubkey_time'] < at_eff - 1e-6:
                        probs.append(O.P('auth-wait-short', '%s: gave up %.3f s after offering the public key; auth_timeout_s is %r' % (where, rec['t1'] - sess['pubkey_time'], op.get('at'))))
            want_cb = 1 if exp[-1] else 0
            if op.get('auth_cb'):
                pr['c05_callback'] = 1
                got_cb = rec.get('auth_cb_calls', 0)
                if got_cb != want_cb:
                    probs.append(O.P('callback-count', '%s: auth callback invoked %d times, expected %d' % (where, got_cb, want_cb)))
                if got_cb and offered and rec.get('auth_cb_pkts') is not None:
                    pass
            if exp[0] == 'ok' and exp[1] and not exp[2]:
                pr['c05_key_accepted'] = 1
            if a and a.get('bad_challenge_at') is not None and sess.get('bad_challenge'):
                pr['c05_bad_challenge'] = 1
        elif k == 'available':
            if rec['value'] != connected:
                probs.append(O.P('available-wrong', 'op#%d: available is %r, the model says %r' % (i, rec['value'], connected)))
        elif k == 'maxchunk':
            if connected and rec['ok']:
                want = min(65536, maxdata // 2) or 2048
                if rec['value'] != want:
                    probs.append(O.P('maxdata-wrong', 'max_chunk_size is %r after connecting to a device announcing maxdata %d; expected %d' % (rec['value'], maxdata, want)))
        elif k == 'push':
            if connected:
                if not rec['ok']:
                    probs.append(O.P('unexpected-exception', 'push after a successful connect raised %s: %s' % (rec['exc'], rec.get('msg'))))
                for m in dev.c04:
                    if 'exceeds device maxdata' in m:
                        probs.append(O.P('wrte-over-maxdata', m))
                        break
                if rec['ok'] and maxdata > 1048576 and rec['spec']['content']['size'] >= maxdata + 100000:
                    # the adopted maxdata is what bounds a sync WRITE: a file larger than it fills (at least) one WRITE nearly up to it
                    big = max([p[4] for p in dev.host_pkts if p[1] == 'WRTE'] or [0])
                    pr['c05_maxdata_above_1mib'] = 1
                    if big < maxdata - 70000:
                        probs.append(O.P('maxdata-wrong', 'device announced maxdata %d; the largest WRITE of a %d-byte push carried %d bytes' % (maxdata, rec['spec']['content']['size'], big)))
            elif rec['ok'] or rec['exc'] != 'AdbConnectionError':
                probs.append(O.P('wrong-exception', 'push after a failed connect: %s' % ('returned' if rec['ok'] else rec['exc'])))
    out['violations'] = [p for p in probs if p[0] in OWN]
    out['nontrivial'] = nontrivial
    out['digest'] = run.digest()
    out['sample'] = {'api': scn['api'], 'maxdata': scn['device']['maxdata'],
                     'connects': [{'keys': op.get('keys'), 'auth_timeout_s': op.get('at'), 'callback': op.get('auth_cb')} for op in scn['actors'][0] if op['op'] == 'connect'],
                     'device_auth': [None if a is None else {k: a.get(k) for k in ('accept_key', 'pubkey', 'bad_challenge_at', 'late_s', 'think_s')} for a in auths],
                     'results': [(r['op'], r['value'] if r['ok'] else r['exc']) for r in recs if r['op'] in ('connect', 'available', 'maxchunk')],
                     'signatures_per_session': [len(s['sigs']) for s in sessions]}
    return out
