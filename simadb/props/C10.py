"""C10 — device-side sync failures surface as the documented exception with the reason."""
from .. import oracles as O
from .. import scenario as S
from ..tape import Gen
from .common import absorb, blank, brief_scn, run_scn, termination

ID = 'C10'
LEVEL = 'exploration'
TIERS = {'quick': 5000, 'thorough': 200000}
RULE = ('seeded transfers in which the device rejects: pull FAIL immediately / mid-transfer / instead of DONE; push (single- and multi-WRITE) FAIL at SEND, '
        'at the n-th DATA, at DONE, with the FAIL WRTE placed before or after the device OKAY it races with (and delayed so that it lands between later '
        'OKAYs); the device then drains to DONE, acknowledges every host WRITE and closes, as adbd does; reasons empty / long / non-UTF-8, optionally cut '
        'across WRTEs; plus well-formed but invalid status records (known ids), and pushes whose final FAIL status is followed by the death of the link (the failure already reported must still be the one raised). non-trivial = the FAIL raced an OKAY (arrived while the host was waiting '
        'for an OKAY) or a multi-WRITE transfer failed; distinct = event-log digests')
ASSUMPTIONS = ['an unknown sync id word is outside "sync status record" (raises KeyError today; noted, not asserted)',
               'no time bound is attached to the no-timeout clause: a long push legitimately keeps sending after an early FAIL']
EXPECT_PROBES = {'all': ['fail_before_okay', 'push_fail_sent', 'recv_fail_mid', 'c10_multi_wrte_fail', 'c10_empty_reason', 'c10_bad_record', 'c10_link_drop_after_fail', 'recv_empty_data_before_fail']}
OWN = ('wrong-result', 'unexpected-exception', 'timeout-instead-of-result', 'missing-exception', 'wrong-exception', 'reason-missing', 'hang', 'no-termination')

REASONS = [b'100% full', b'My%20File.bin: %s %d', b'', b'Permission denied', b'couldn\'t create file: Read-only file system', b'x' * 300, b'\xff\xfe bad \xc3', 'nö spáce'.encode('utf8'), b'No space left on device']


def generate(seed, tier):
    g = Gen(seed)
    d = S.gen_device(g)
    d['cut_plans'] = [{'policy': g.pick(['whole', 'whole', 'straddle', 'random', 'tiny']), 'seed': g.int(0, 1 << 30)} for _ in range(g.int(1, 2))]
    ops = []
    link_drop = False
    reason = g.pick(REASONS)
    c = g.int(0, 9)
    if c <= 2:
        p = S.add_file(g, d, 30000)
        d['recv_fail'] = {p: {'at': g.pick(['start', 'mid', 'end']), 'n': g.int(1, 3), 'reason': reason.hex(), 'then_close': g.chance(0.4), 'empty_data_first': g.chance(0.2)}}
        ops.append({'op': 'pull', 'path': p, 'dest': g.pick(['bytesio', 'file']), 'cb': g.pick([None, None, 'count'])})
        if g.chance(0.3):
            # the progress callback uses the device itself (a stat() on another stream): that reader takes the pull's FAIL -- and the CLSE
            # behind it -- off the wire; the pull still reports the device's reason (sync API; the async callback cannot await)
            ops[-1]['cb'] = 'reenter'
            ops[-1]['reenter_path'] = '/sdcard/reenter'
            d['fs']['/sdcard/reenter'] = {'mode': 0o100644, 'mtime': 5, 'content': {'seed': 1, 'size': 10, 'alpha': 'bin'}, 'records': [100]}
            d['recv_fail'][p]['at'] = g.pick(['mid', 'end'])
            d['fs'][p]['content']['size'] = max(d['fs'][p]['content']['size'], 3000)
            d['fs'][p]['records'] = [g.pick([500, 1000])]
    elif c <= 7:
        d['maxdata'] = g.pick([4096, 4096, 8192, 65536, 262144])
        size = g.pick([0, 1, 100, 3000, g.int(4000, 60000), g.int(4000, 60000), g.int(10000, 200000)])
        d['push_fail'] = {'at': g.pick(['send', 'data', 'done']), 'n': g.int(1, 6), 'reason': reason.hex(), 'cut_reason': g.chance(0.3)}
        if g.chance(0.5):
            d['fail_before_okay'] = True
        if g.chance(0.4):
            d['push_fail']['delay'] = g.pick([0.0005, 0.005, 0.05])
            d['latency'] = {'mode': 'small', 'max': g.pick([0.001, 0.02])}
        if g.chance(0.2):
            # the device reports the failure as its final status and the link dies right afterwards: push has the FAIL and must report it
            d['push_fail']['at'] = 'done'
            d['push_fail'].pop('delay', None)
            d['fail_before_okay'] = False
            link_drop = True
        ops.append({'op': 'push', 'src': g.pick(['bytesio', 'file']), 'content': {'seed': g.int(0, 1 << 30), 'size': size, 'alpha': 'bin'}, 'path': '/system/ro%d' % g.int(0, 99),
                    'mtime': g.pick([0, 7]), 'cb': g.pick([None, None, 'count'])})
    else:
        kind = g.pick(['stat', 'list', 'recv', 'send'])
        bad = {'stat': ['DENT', 'DATA', 'DONE', 'OKAY'], 'list': ['STAT', 'DATA', 'OKAY'], 'recv': ['DENT', 'STAT', 'OKAY', 'STAT+'], 'send': ['DONE', 'DATA', 'STAT', 'DENT', 'STAT+']}[kind]
        d['bad_record'] = {kind: g.pick(bad)}
        if kind == 'stat':
            ops.append({'op': 'stat', 'path': S.add_file(g, d, 100)})
        elif kind == 'list':
            ops.append({'op': 'list', 'path': S.add_dir(g, d, 5)})
        elif kind == 'recv':
            ops.append({'op': 'pull', 'path': S.add_file(g, d, 3000), 'dest': 'bytesio'})
        else:
            ops.append({'op': 'push', 'src': 'bytesio', 'content': {'seed': 3, 'size': g.int(0, 5000), 'alpha': 'bin'}, 'path': '/data/b%d' % g.int(0, 9)})
    # a healthy operation afterwards: the failure must not poison the session
    if g.chance(0.5):
        name = S.add_cmd(g, d, 500)
        ops.append({'op': 'shell', 'cmd': name, 'decode': False})
    cfg = S.gen_config(g, 30000)
    if link_drop:
        cfg['drop_link_after_fail'] = True
        ops = ops[:1]
    scn = {'api': g.pick(['sync', 'async']), 'transport': 'mem', 'device': d, 'config': cfg, 'actors': [[{'op': 'connect'}] + [S.timeouts(g, o) for o in ops]], 'object': {'banner': 'simhost'}}
    return {'seed': seed, 'scn': scn}


def evaluate(case, tapes=None):
    out = blank()
    scn = case['scn']
    run, tape = run_scn(case, 'scn', 0, tapes)
    absorb(out, run, tape)
    probs = O.check_session(run, scn) + termination(run)
    d = scn['device']
    pr = out['probes']
    dev = run.device
    multi_fail = any(len(s.recv_payloads) >= 2 and any(a.get('fail') is not None for a in dev.push_attempts if a['stream'] == s.sid) for s in dev.all_streams)
    if multi_fail:
        pr['c10_multi_wrte_fail'] = 1
    pf = d.get('push_fail') or {}
    rfs = list(d.get('recv_fail', {}).values())
    if (pf and pf.get('reason') == '') or any(r.get('reason') == '' for r in rfs):
        pr['c10_empty_reason'] = 1
    if d.get('bad_record'):
        pr['c10_bad_record'] = 1
    if scn['config'].get('drop_link_after_fail'):
        pr['c10_link_drop_after_fail'] = 1
    out['violations'] = [p for p in probs if p[0] in OWN]
    out['nontrivial'] = bool(run.probes.get('fail_before_okay') or multi_fail or run.probes.get('recv_fail_mid'))
    out['digest'] = run.digest()
    out['sample'] = brief_scn(scn, run)
    out['sample']['fail'] = {'push_fail': d.get('push_fail'), 'recv_fail': list(d.get('recv_fail', {}).values()), 'bad_record': d.get('bad_record'), 'fail_before_okay': d.get('fail_before_okay')}
    return out
