"""C15 — every message reaches the peer completely, even when the transport writes short."""
import copy

from .. import oracles as O
from .. import scenario as S
from ..tape import Gen
from .common import absorb, blank, brief_scn, run_scn

ID = 'C15'
LEVEL = 'exploration'
TIERS = {'quick': 5000, 'thorough': 200000}
RULE = ('each case is one session (connect + 1-4 ops over all operations) run with unlimited write capacity and again with a per-call write capacity '
        'drawn from the tape (1 byte .. unlimited, varying per call, occasionally 0; also "tiny" = at most a few bytes per call, and "stuck" = a transport '
        'that never accepts anything), in memory and through the real TcpTransport / TcpTransportAsync on the simulated kernel socket / asyncio transport '
        'with small send buffers and a slow reader. The peer\'s independent parser must see only complete well-formed messages; the message sequence must '
        'equal the unlimited run when the calls return and be a prefix when one raises; a stuck transport must lead to a raise within the C11 bound. '
        'non-trivial = >= 1 write was accepted partially; distinct = event-log digests')
ASSUMPTIONS = ['a transport reports the number of bytes it accepted (BaseTransport.bulk_write contract); accepting nothing is reported as the transport timeout error or as 0']
EXPECT_PROBES = {'all': ['short_writes', 'c15_tcp_leg', 'c15_stuck', 'c15_zero_capacity_call', 'c15_eagain', 'c15_reconnect_race', 'c15_second_object_ran_mid_message']}
KINDS = ['shell', 'exec_out', 'streaming_shell', 'list', 'stat', 'pull', 'push', 'push', 'root']
TCP_LEG = True
OWN = ('wire-format', 'truncated', 'unexpected-exception', 'timeout-instead-of-result', 'push-content', 'push-missing', 'push-incomplete', 'sequence-differs', 'not-a-prefix', 'hang', 'no-termination', 'bound-exceeded', 'wrong-result', 'stuck-returned')


def gen_race(seed, g):
    """One thread (or task) is in the middle of multi-WRITE pushes over a transport that writes short while another closes and
    re-opens the connection of the shared device: every connection still carries whole messages only."""
    d = S.gen_device(g)
    d['latency'] = {'mode': 'zero'}
    d.pop('stray', None)
    d['maxdata'] = g.pick([4096, 8192])
    api = g.pick(['sync', 'sync', 'async'])
    pusher = [{'op': 'push', 'src': 'bytesio', 'content': {'seed': g.int(0, 1 << 30), 'size': g.int(6000, 30000), 'alpha': 'bin'}, 'path': '/data/local/tmp/r%d' % i, 'mtime': 7, 'rt': 5.0, 'tt': 5.0}
              for i in range(g.int(1, 2))]
    other = []
    if g.chance(0.5):
        other.append({'op': 'shell', 'cmd': S.add_cmd(g, d, 200), 'decode': False, 'rt': 5.0, 'tt': 5.0})
    other += ([{'op': 'close'}] if g.chance(0.5) else []) + [{'op': 'connect', 'rt': 5.0}]      # connect() on a connected device re-connects by itself
    if g.chance(0.5):
        other.append({'op': 'shell', 'cmd': S.add_cmd(g, d, 200), 'decode': False, 'rt': 5.0, 'tt': 5.0})
    cfg = {'frag': 'whole', 'call_cost': 1e-5, 'short': 'pos', 'sched': g.pick(['pct', 'dense', 'coarse']), 'pct_d': g.pick([1, 2, 3]), 'pct_k': g.pick([300, 1500]),
           'p_line': g.pick([0.01, 0.05]), 'sched_step_cap': 1500000}
    if api == 'async':
        cfg['ayield'] = g.pick([0.2, 0.6])
    scn = {'api': api, 'transport': 'mem', 'device': d, 'config': cfg, 'pre': [{'op': 'connect', 'rt': 5.0}], 'actors': [pusher, other], 'object': {'banner': 'simhost'}}
    return {'seed': seed, 'scn': scn, 'leg': 'mem', 'race': True}


def gen_two_objects(seed, g):
    """Two device objects of one process, each on its own transport: while one is between two pieces of a message (short write),
    the other runs a whole session. Each peer still sees exactly its own object's messages, whole."""
    d = S.gen_device(g)
    d['latency'] = {'mode': 'zero'}
    d.pop('stray', None)
    d['maxdata'] = g.pick([4096, 8192])
    ops = [{'op': 'connect', 'rt': 5.0}]
    for _ in range(g.int(1, 2)):
        if g.chance(0.5):
            ops.append({'op': 'push', 'src': 'bytesio', 'content': {'seed': g.int(0, 1 << 30), 'size': g.int(100, 12000), 'alpha': 'bin'}, 'path': '/data/local/tmp/t%d' % g.int(0, 99), 'mtime': 7, 'rt': 5.0, 'tt': 5.0})
        else:
            ops.append({'op': 'shell', 'cmd': S.add_cmd(g, d, 300), 'decode': False, 'rt': 5.0, 'tt': 5.0})
    gd = S.gen_device(g)
    gd['latency'] = {'mode': 'zero'}
    gd.pop('stray', None)
    gops = [{'op': 'connect', 'rt': 5.0}, {'op': 'shell', 'cmd': S.add_cmd(g, gd, 300), 'decode': False, 'rt': 5.0, 'tt': 5.0}]
    if g.chance(0.5):
        gops.append({'op': 'push', 'src': 'bytesio', 'content': {'seed': g.int(0, 1 << 30), 'size': g.int(100, 6000), 'alpha': 'bin'}, 'path': '/data/local/tmp/g', 'mtime': 7, 'rt': 5.0, 'tt': 5.0})
    gs = {'api': 'sync', 'transport': 'mem', 'device': gd, 'config': {'frag': 'whole', 'call_cost': 1e-5, 'short': g.pick([None, 'pos'])}, 'actors': [gops], 'object': {'banner': 'ghost'}}
    cfg = {'frag': 'whole', 'call_cost': 1e-5, 'short': 'pos', 'ghost_in_write': {'nth': g.int(0, 10), 'scn': gs, 'seed': g.int(0, 1 << 30)}}
    scn = {'api': 'sync', 'transport': 'mem', 'device': d, 'config': cfg, 'actors': [ops], 'object': {'banner': 'simhost'}}
    return {'seed': seed, 'scn': scn, 'leg': 'mem', 'two_objects': True}


def evaluate_two_objects(case, tapes):
    out = blank()
    scn = case['scn']
    run, tape = run_scn(case, 'scn', 0, tapes)
    absorb(out, run, tape)
    probs = O.monitors(run, ('c02',)) + O.check_session(run, scn)
    if run.abort:
        probs.append(O.P('hang' if run.abort in ('hang', 'deadlock') else 'no-termination', 'run aborted: %s %s' % (run.abort, getattr(run, 'abort_msg', ''))))
    pr = out['probes']
    for sub in getattr(run.link, 'ghost_runs', None) or []:
        pr['c15_second_object_ran_mid_message'] = 1
        gs = scn['config']['ghost_in_write']['scn']
        probs += [O.P(t, 'second device object: ' + m) for (t, m) in O.monitors(sub, ('c02',)) + O.check_session(sub, gs)]
        if sub.abort:
            probs.append(O.P('no-termination', 'second device object: run aborted: %s' % sub.abort))
    out['violations'] = [p for p in probs if p[0] in OWN]
    out['nontrivial'] = bool(getattr(run.link, 'ghost_runs', None))
    out['digest'] = run.digest()
    out['sample'] = brief_scn(scn, run)
    return out


def evaluate_race(case, tapes):
    out = blank()
    scn = case['scn']
    run, tape = run_scn(case, 'scn', 0, tapes)
    absorb(out, run, tape)
    probs = O.monitors(run, ('c02',))
    if run.abort:
        probs.append(O.P('hang' if run.abort in ('hang', 'deadlock') else 'no-termination', 'run aborted: %s %s' % (run.abort, getattr(run, 'abort_msg', ''))))
    for (sess, n) in getattr(run.device, 'session_truncations', []):
        probs.append(O.P('truncated', 'connection #%d was closed while the peer had %d bytes of an unfinished message' % (sess, n)))
    pr = out['probes']
    pr['c15_reconnect_race'] = 1
    if run.device.sessions >= 2 and any(p[0] >= 2 and p[1] == 'WRTE' for p in run.device.host_pkts):
        pr['c15_race_wrte_on_new_connection'] = 1
    out['violations'] = [p for p in probs if p[0] in OWN]
    out['nontrivial'] = run.link.short_writes > 0 and run.device.sessions >= 2
    out['digest'] = run.digest()
    out['sample'] = brief_scn(scn, run)
    return out


def generate(seed, tier):
    g = Gen(seed)
    if g.chance(0.06):
        return gen_race(seed, g)
    if g.chance(0.05):
        return gen_two_objects(seed, g)
    big = 20000 if tier == 'quick' else 150000
    scn = S.session(g.int(0, 1 << 60), KINDS, nmax=4, big=big)
    mode = g.pick(['cap', 'cap', 'tiny', 'stuck'], [5, 0, 3, 1])
    scn['config']['short'] = mode
    scn['config']['short_zero_raises'] = g.chance(0.6)
    scn['config']['idle_cost'] = 0.05
    scn['config']['stop_on_error'] = True
    scn['config']['step_cap'] = 300000
    leg = g.pick(['mem', 'mem', 'tcp']) if TCP_LEG else 'mem'
    case_extra = {}
    if leg == 'tcp':
        scn['transport'] = 'tcp'
        scn['tcp'] = {'sndbuf': g.pick([64, 512, 4096, 65536]), 'drain': g.pick([1, 64, 1000, 100000]), 'drain_every': g.pick([1e-5, 1e-3, 0.05])}
        scn['config']['short'] = None
        for op in scn['actors'][0]:
            op['tt'] = g.pick([1.0, 5.0])
        if g.chance(0.3):
            scn['api'] = 'sync'
            case_extra['eagain_pick'] = g.int(0, 1 << 30)
    for op in scn['actors'][0]:
        if op['op'] == 'push' and not op.get('mtime'):
            op['mtime'] = 1234567     # mtime 0 means 'now', which legitimately differs between the paired runs
        if op['op'] == 'push' and op['content']['size'] > 60000:
            op['content']['size'] = g.int(1000, 60000)
    return dict({'seed': seed, 'scn': scn, 'leg': leg}, **case_extra)


def _msgs(dev):
    return [(p[1], p[2], p[3], p[4], p[5]) for p in dev.host_pkts]


def evaluate(case, tapes=None):
    if case.get('race'):
        return evaluate_race(case, tapes)
    if case.get('two_objects'):
        return evaluate_two_objects(case, tapes)
    out = blank()
    scn = case['scn']
    base = copy.deepcopy(scn)
    base['config']['short'] = None
    base['transport'] = 'mem'
    c0 = dict(case)
    c0['scn_base'] = base
    run0, tape0 = run_scn(c0, 'scn_base', 0, tapes, seed_idx=0)
    absorb(out, run0, tape0)
    if O.check_session(run0, base) or run0.abort:
        out['probes']['base_run_failed'] = 1
        out['digest'] = run0.digest()
        out['sample'] = brief_scn(base, run0)
        return out
    if case.get('eagain_pick') is not None:
        # one send() fails with EAGAIN although select() reported the socket writeable; the call index is drawn among the writes of the base run
        wr = [c[0] for c in run0.link.calls if c[2] == 'w']
        scn = copy.deepcopy(scn)
        if wr:
            # indices differ between the in-memory base run and the TCP run; pick by ordinal among writes
            scn['config']['eagain_nth_write'] = case['eagain_pick'] % len(wr)
        case = dict(case)
        case['scn'] = scn
    try:
        run, tape = run_scn(case, 'scn', 1, tapes, seed_idx=0)
    except ImportError:
        out['digest'] = run0.digest()
        out['sample'] = {'note': 'tcp leg not built'}
        return out
    absorb(out, run, tape)
    probs = O.monitors(run, ('c02',))
    pr = out['probes']
    if case.get('leg') == 'tcp':
        pr['c15_tcp_leg'] = 1
        pr['short_writes'] = pr.get('short_writes', 0) + (run.sock.short_sends if getattr(run, 'sock', None) else 0)
    mode = scn['config'].get('short')
    if mode == 'stuck':
        pr['c15_stuck'] = 1
    if getattr(run, 'sock', None) is not None and not run.abort:
        run.sock.flush(run.clock.now)       # bytes the kernel accepted are delivered eventually
    eag = getattr(run.link, 'eagain_fired', None)
    if eag is not None:
        pr['c15_eagain'] = 1
        bad = [r for r in run.results[0] if not r['ok']]
        from .common import exc_chain
        if not bad or 'BlockingIOError' not in exc_chain(bad[0]):
            probs.append(O.P('truncated', 'send() failed with EAGAIN (nothing written) but %s' % ('every call returned normally' if not bad else '%s raised %s instead of surfacing it' % (bad[0]['op'], bad[0]['exc']))))
    recs = run.results[0]
    all_ok = all(r['ok'] for r in recs) and len(recs) == len(scn['actors'][0])
    a, b = _msgs(run0.device), _msgs(run.device)
    if run.abort:
        probs.append(O.P('hang' if run.abort == 'hang' else 'no-termination', 'short-write run aborted: %s %s' % (run.abort, getattr(run, 'abort_msg', ''))))
    elif all_ok:
        if mode == 'stuck':
            probs.append(O.P('stuck-returned', 'every call returned although the transport never accepted a byte'))
        if a != b:
            j = next((i for i in range(min(len(a), len(b))) if a[i] != b[i]), min(len(a), len(b)))
            probs.append(O.P('sequence-differs', 'all calls returned but the peer received %d messages, %d with unlimited capacity; first difference at #%d: %r vs %r' % (len(b), len(a), j, b[j:j + 1], a[j:j + 1])))
        if not run.device.at_message_boundary():
            probs.append(O.P('truncated', 'all calls returned but the peer holds a partial message (%d bytes)' % len(run.device.rxbuf)))
        probs += [p for p in O.check_session(run, scn) if p[0] == 'wrong-result']
    else:
        # a call raised (allowed). Cleanup CLSEs sent on the way out are not part of the comparison,
        # and once the library has given up mid-message the peer's framing is meaningless.
        probs = [p for p in probs if p[0] != 'wire-format']
        while b and b[-1][0] == 'CLSE' and b != a[:len(b)]:
            b = b[:-1]
        if mode in ('cap', 'tiny') and not getattr(run.link, 'zero_caps', 0) and case.get('leg') != 'tcp':
            r = [x for x in recs if not x['ok']][0]
            probs.append(O.P('truncated', '%s raised %s (%s) although every write call made progress' % (r['op'], r['exc'], r.get('msg'))))
        if b != a[:len(b)]:
            j = next((i for i in range(min(len(a), len(b))) if a[i] != b[i]), min(len(a), len(b)))
            probs.append(O.P('not-a-prefix', 'a call raised; the %d messages the peer received are not a prefix of the unlimited run (first difference at #%d: %r vs %r)' % (len(b), j, b[j:j + 1], a[j:j + 1])))
        bad = [r for r in recs if not r['ok']]
        if bad and mode == 'stuck':
            r = bad[0]
            rt = r['spec'].get('rt', 10.0)
            tt = r['spec'].get('tt', scn.get('object', {}).get('default_tt'))
            T = rt if tt is None else min(tt, rt)
            bound = 6 * (rt + T) + 1.0
            if r['t1'] - r['t0'] > bound:
                probs.append(O.P('bound-exceeded', '%s on a stuck transport took %.2f virtual s to fail; bound %.2f' % (r['op'], r['t1'] - r['t0'], bound)))
    if getattr(run.link, 'zero_caps', 0):
        pr['c15_zero_capacity_call'] = 1
    out['violations'] = [p for p in probs if p[0] in OWN]
    out['nontrivial'] = (run.link.short_writes > 0) or pr.get('short_writes', 0) > 0
    out['digest'] = run.digest()
    out['sample'] = brief_scn(scn, run)
    out['sample']['short'] = {'mode': mode, 'leg': case.get('leg'), 'writes': run.link.writes, 'short_writes': run.link.short_writes, 'tcp': scn.get('tcp')}
    return out
