"""C16 — the async API is behaviourally identical to the sync API."""
import copy

from .. import oracles as O
from ..tape import Gen, h64
from . import C01, C03, C04, C05, C07, C08, C09, C10, C11, C12, C13, C15, C18
from .common import absorb, blank, brief_scn, run_scn

ID = 'C16'
LEVEL = 'exploration'
TIERS = {'quick': 6000, 'thorough': 300000}
RULE = ('every single-actor scenario family of the other checks (C01 shell chunkings, C03 fragmentation/corruption, C04 protocol, C05 handshakes, C07 push, '
        'C08 pull, C09 list/stat, C10 device failures, C11 stalls x timeout grid, C12 transport faults + recovery, C13 connection state sequences, C15 short '
        'writes) is executed twice from the same run seed: through AdbDevice on SimTransport and through AdbDeviceAsync on SimTransportAsync, against identical '
        'device models driven by identical tapes; likewise TcpTransport on the simulated socket vs TcpTransportAsync on the simulated asyncio transport. Host '
        'packet logs must be byte-for-byte equal, results equal, exception types equal, transport call sequences (op, size, timeout) equal. '
        'non-trivial = the pair contains a filesync transfer or a fault; distinct = event-log digests of the sync run')
ASSUMPTIONS = ['virtual end times are reported, not asserted', 'TCP pairs compare delivered bytes and results, not call sequences (the transports are structured differently by design)']
EXPECT_PROBES = {'all': ['c16_family_C01', 'c16_family_C05', 'c16_family_C07', 'c16_family_C10', 'c16_family_C11', 'c16_family_C12', 'c16_family_C13', 'c16_family_C15', 'c16_family_tcp', 'c16_fault_pair', 'junk_checksum_word_on_empty_packet']}
OWN = ('packets-differ', 'results-differ', 'exceptions-differ', 'calls-differ', 'termination-differs')
FAMILIES = [('C01', C01), ('C03', C03), ('C04', C04), ('C05', C05), ('C07', C07), ('C08', C08), ('C09', C09), ('C10', C10), ('C11', C11), ('C12', C12), ('C13', C13), ('C15', C15), ('tcp', C18)]


def generate(seed, tier):
    g = Gen(seed)
    name, mod = g.pick(FAMILIES)
    sub = mod.generate(g.int(0, 1 << 60), tier)
    for _ in range(8):
        if not sub.get('race') and not sub.get('two_objects'):
            break
        sub = mod.generate(g.int(0, 1 << 60), tier)      # multi-actor families are schedules (C06 decides those per implementation), not pairs
    scn = copy.deepcopy(sub['scn'])
    extra = {}
    if name == 'C11':
        # apply a stall at a seeded packet index (no probe run needed for a differential check)
        st = sub['stall']
        if scn.get('transport') == 'tcp':
            # the two TCP transports are different code with their own wake-up order: which timeout fires first when a filler
            # packet and a deadline coincide is not comparable; the stall pairs run over the shared in-memory transport
            scn['transport'] = 'mem'
            scn.pop('tcp', None)
        scn['device']['stall'] = {'after_pkts': st['pick'] % 12, 'kind': st['kind'], 'interval': 0.3, 'cmdword': st['cmdword']}
        extra['fault'] = True
    elif name == 'C12':
        scn['config']['faults'] = [{'at': f['pick'] % 60 if 'pick' in f else f['k'], 'kind': f['kind'], 'persistent': f['kind'] in ('reset', 'eof')} for f in sub['faults']]
        scn['config']['stop_on_error'] = True
        scn['config']['heal_on_reconnect'] = True
        scn['post'] = [{'op': 'locks'}, {'op': 'close'}] + copy.deepcopy(scn['actors'][0])
        extra['fault'] = True
    elif name == 'C03' and sub.get('corrupt'):
        c = sub['corrupt']
        scn['device']['corrupt'] = {'at': c['pick'] % 10, 'kind': c['kind'], 'off': c['off'], 'bitno': c['bitno'], 'delta': c['delta']}
        extra['fault'] = True
    elif name == 'C15':
        scn['transport'] = 'mem'
        if scn['config'].get('short') is None:
            scn['config']['short'] = 'cap'
        extra['fault'] = True
    elif name == 'tcp':
        if sub.get('family') == 'session' and g.chance(0.4):
            # bytes trickle over TCP: each piece arrives within the transport timeout, the whole packet does not
            tt = 2.0
            for op in scn['actors'][0]:
                op['tt'] = tt
                op['rt'] = 6.0
            scn['device']['stall'] = {'after_pkts': g.int(1, 8), 'kind': 'trickle', 'interval': g.pick([0.3, 0.9]) * tt, 'cmdword': 0}
            scn['config']['idle_cost'] = 0.05
            extra['fault'] = True
        if sub.get('family') != 'session':
            name, mod = 'C04', C04
            sub = mod.generate(g.int(0, 1 << 60), tier)
            scn = copy.deepcopy(sub['scn'])
    if g.chance(0.08):
        scn['device']['junk_check_on_empty'] = g.pick([1, 0xDEADBEEF, 0xFFFFFFFF])
    for op in scn['actors'][0] + scn.get('post', []):
        if op['op'] == 'push' and not op.get('mtime'):
            op['mtime'] = 4321      # 'now' is not comparable between two runs
    # sync-only scenario elements (a second device object run from inside the session) have no async counterpart
    scn['actors'][0] = [op for op in scn['actors'][0] if op['op'] not in ('ghost', 'ghost_resume')]
    for op in scn['actors'][0]:
        if op.get('cb') == 'reenter':
            op['cb'] = 'count'      # the re-entrant callback is a sync-only scenario (a plain function cannot await)
    return {'seed': seed, 'scn': scn, 'family': name, 'fault': extra.get('fault', False)}


def _key(rec):
    from .C03 import _res_key
    k = _res_key(rec)
    nested = tuple(_key(n) for n in (rec.get('nested') or []))
    cb = tuple(rec.get('cb_calls') or ())
    return k + (nested, cb, rec.get('avail1'))


def evaluate(case, tapes=None):
    out = blank()
    scn = case['scn']
    a = copy.deepcopy(scn)
    a['api'] = 'sync'
    b = copy.deepcopy(scn)
    b['api'] = 'async'
    c = dict(case)
    c['scn_sync'] = a
    c['scn_async'] = b
    r1, t1 = run_scn(c, 'scn_sync', 0, tapes, seed_idx=0)
    absorb(out, r1, t1)
    r2, t2 = run_scn(c, 'scn_async', 1, tapes, seed_idx=0)
    absorb(out, r2, t2)
    probs = []
    fam = case.get('family')
    out['probes']['c16_family_' + fam] = 1
    if case.get('fault'):
        out['probes']['c16_fault_pair'] = 1
    if bool(r1.abort) != bool(r2.abort):
        probs.append(O.P('termination-differs', 'sync run abort=%r, async run abort=%r' % (r1.abort, r2.abort)))
    else:
        la = [_key(r) for r in r1.results[0]] + [_key(r) for r in getattr(r1, 'post', [])]
        lb = [_key(r) for r in r2.results[0]] + [_key(r) for r in getattr(r2, 'post', [])]
        if la != lb:
            j = next((i for i in range(min(len(la), len(lb))) if la[i] != lb[i]), min(len(la), len(lb)))
            x, y = la[j:j + 1], lb[j:j + 1]
            tag = 'exceptions-differ' if (x and y and x[0][2] != y[0][2]) else 'results-differ'
            probs.append(O.P(tag, 'op#%d: AdbDevice -> %r, AdbDeviceAsync -> %r' % (j, [v[:3] for v in x], [v[:3] for v in y])))
        if r1.device.host_pkts != r2.device.host_pkts:
            pa, pb = r1.device.host_pkts, r2.device.host_pkts
            j = next((i for i in range(min(len(pa), len(pb))) if pa[i] != pb[i]), min(len(pa), len(pb)))
            probs.append(O.P('packets-differ', 'host packet #%d: sync sent %r, async sent %r (%d vs %d packets)' % (j, pa[j:j + 1], pb[j:j + 1], len(pa), len(pb))))
        if scn.get('transport', 'mem') == 'mem':
            ca = [(x[2], x[3], x[4], x[5]) for x in r1.link.calls]
            cb = [(x[2], x[3], x[4], x[5]) for x in r2.link.calls]
            if ca != cb:
                j = next((i for i in range(min(len(ca), len(cb))) if ca[i] != cb[i]), min(len(ca), len(cb)))
                probs.append(O.P('calls-differ', 'transport call #%d: sync %r, async %r (%d vs %d calls)' % (j, ca[j:j + 1], cb[j:j + 1], len(ca), len(cb))))
    out['violations'] = [p for p in probs if p[0] in OWN]
    ops = [o['op'] for o in scn['actors'][0]]
    out['nontrivial'] = bool(case.get('fault')) or any(o in ('pull', 'push', 'list', 'stat') for o in ops)
    out['digest'] = h64(r1.digest(), fam)
    out['sample'] = brief_scn(a, r1)
    out['sample']['family'] = fam
    out['sample']['async_results'] = [(r['op'], 'ok' if r['ok'] else r['exc']) for r in r2.results[0][:8]]
    return out
