"""C14 — stream ids are non-zero, 32-bit and unique among live streams."""
from .. import scenario as S
from .. import oracles as O
from ..tape import Gen, h64
from .common import absorb, blank, brief_scn, run_scn, termination

ID = 'C14'
LEVEL = 'exploration'
TIERS = {'quick': 5000, 'thorough': 300000}
RULE = ('2-3 baton-scheduled threads (or asyncio tasks) each opening 2-4 streams on one device (some OPENs refused by the device, some answered only after the read timeout of the host, so that opens fail while others are in flight and their streams stay live on the device; late CLSEs for ids about to be handed out; one actor closing and re-connecting the shared device mid-run), with opcode-level pre-emption inside AdbDevice._open '
        'and line-level pre-emption elsewhere (dense and PCT policies), the id counter preset to values near 0 and 2^32 (..., 2^32-2, 2^32-1); plus '
        'sequential wrap-around sessions. Oracle on the device side: every OPEN arg0 in [1, 2^32-1] and never the id of a stream that is live at that '
        'moment. non-trivial = a context switch happened inside _open (threads) or the counter wrapped / two streams were live at once (tasks, sequential)')
ASSUMPTIONS = ['a stream is live from its OPEN until either side has sent CLSE', 'results of the operations are not judged here (K1 may time them out); only OPEN ids']
EXPECT_PROBES = {'all': ['preempt_in__open', 'preempt_opcode', 'c14_wrapped', 'c14_two_live', 'open_refused', 'late_open_okay', 'noise_clse', 'c14_reconnect_mid_run']}
OWN = ('id-zero', 'id-reused', 'id-range', 'hang', 'no-termination', 'deadlock')


def generate(seed, tier):
    g = Gen(seed)
    d = S.gen_device(g)
    d['latency'] = {'mode': 'zero'}
    d.pop('stray', None)
    d['rid_style'] = g.pick(['wide', 'high'])
    mode = g.pick(['threads', 'threads', 'threads', 'tasks', 'seq'])
    nact = 1 if mode == 'seq' else g.pick([2, 3])
    actors = []
    for a in range(nact):
        ops = []
        for _ in range(g.int(2, 4)):
            k = g.pick(['shell', 'stat', 'reboot', 'streaming_shell', 'exec_out'], [5, 2, 1, 1, 2])
            if k in ('shell', 'streaming_shell', 'exec_out'):
                name = S.add_cmd(g, d, 40)
                ops.append({'op': k, 'cmd': name, 'decode': False, 'rt': 3.0, 'tt': 3.0})
            elif k == 'stat':
                ops.append({'op': 'stat', 'path': S.add_file(g, d, 10), 'rt': 3.0, 'tt': 3.0})
            else:
                ops.append({'op': 'reboot', 'rt': 3.0, 'tt': 3.0})
        actors.append(ops)
    if g.chance(0.5):
        d['refuse'] = ['exec:']       # OPENs of exec: are answered with CLSE(0, id): those opens fail with a timeout
    if g.chance(0.3):
        # a busy device answers one OPEN only after the host has given up on it: that stream stays live on the device, its id must not come back
        d['open_delay'] = {'nth': g.int(0, 4), 'delay': g.pick([3.5, 5.0, 8.0])}
    cfg = {'frag': 'whole', 'call_cost': 1e-5}
    if d.get('open_delay') and g.chance(0.6):
        cfg['idle_returns_empty'] = True     # an idle transport returns b'' (so the wait ends in the library's own AdbTimeoutError)
        cfg['idle_cost'] = 0.05
    if mode == 'threads':
        cfg['sched'] = g.pick(['dense', 'dense', 'pct'])
        cfg['opcode_fns'] = ['_open']
        cfg['p_line'] = g.pick([0.01, 0.05])
        cfg['p_opcode'] = g.pick([0.02, 0.1, 0.3])
        cfg['pct_d'] = g.pick([2, 3])
        cfg['pct_k'] = g.pick([200, 1000])
    else:
        cfg['ayield'] = g.pick([0.0, 0.5])
    start = g.pick([0, 0, 1, 0xFFFFFFFF, 0xFFFFFFFE, 0xFFFFFFFD, 0xFFFFFFFC, 0xFFFFFFFF - g.int(0, 6), 0x7FFFFFFF, 0xFFFFFFFF])
    if g.chance(0.2):
        # late CLSEs for ids this object has not handed out (yet): whatever the library remembers about them, the ids it hands out stay in [1, 2^32-1]
        nxt = [(start + j) & 0xFFFFFFFF for j in range(1, 8)]
        d['noise_clse_locals'] = [x for x in nxt if x != 0][:g.int(1, 6)] + [0xFFFFFFFF]
        d['noise_every'] = g.pick([1, 2])
    if mode != 'seq' and g.chance(0.2):
        # one actor closes and re-connects the shared device in the middle: an OPEN already under way may go out on the new connection
        a = g.int(0, nact - 1)
        at = g.int(0, len(actors[a]))
        actors[a][at:at] = [{'op': 'close'}, {'op': 'connect', 'rt': 5.0}]
    scn = {'api': 'async' if mode == 'tasks' else 'sync', 'transport': 'mem', 'device': d, 'config': cfg, 'pre': [{'op': 'connect', 'rt': 5.0}],
           'actors': actors, 'object': {'banner': 'simhost', 'local_id': start}}
    if mode == 'seq':
        scn['actors'] = [[{'op': 'connect', 'rt': 5.0}] + actors[0]]
        scn['pre'] = []
        scn['api'] = g.pick(['sync', 'async'])
    return {'seed': seed, 'scn': scn, 'mode': mode}


def evaluate(case, tapes=None):
    out = blank()
    scn = case['scn']
    run, tape = run_scn(case, 'scn', 0, tapes)
    absorb(out, run, tape)
    probs = termination(run)
    dev = run.device
    for m in dev.c04:
        if 'OPEN with local id 0' in m:
            probs.append(O.P('id-zero', m))
        elif 'OPEN reuses local id' in m:
            probs.append(O.P('id-reused', m))
    opens = [p for p in dev.host_pkts if p[1] == 'OPEN']
    for p in opens:
        if not (1 <= p[2] <= 0xFFFFFFFF):
            probs.append(O.P('id-range', 'OPEN arg0 = %d' % p[2]))
    ids = [p[2] for p in opens]
    wrapped = any(ids[i + 1] < ids[i] for i in range(len(ids) - 1)) and max(ids or [0]) > 0xFFFFFF00
    pr = out['probes']
    if wrapped:
        pr['c14_wrapped'] = 1
    two_live = False
    # were two streams live at once? (open times vs close events) — approximate by overlap of op windows
    spans = [(s.open_t, s) for s in dev.all_streams]
    for i, (t, s) in enumerate(spans):
        for (t2, s2) in spans[:i]:
            if not (s2.host_closed or s2.dev_clse_emitted) or getattr(s2, 'closed_t', t2) > t:
                two_live = True
    if two_live:
        pr['c14_two_live'] = 1
    if dev.sessions >= 2:
        pr['c14_reconnect_mid_run'] = 1
    in_open = run.sched.in_alloc_switch if run.sched is not None else 0
    out['violations'] = [p for p in probs if p[0] in OWN]
    out['nontrivial'] = in_open > 0 if case.get('mode') == 'threads' else (wrapped or two_live)
    if run.sched is not None:
        out['states'] = list(run.sched.states)
    out['digest'] = h64(run.digest(), ids)
    out['sample'] = brief_scn(scn, run)
    out['sample']['open_ids'] = ids[:12]
    out['sample']['start_counter'] = scn['object']['local_id']
    out['sample']['mode'] = case.get('mode')
    return out
