"""C19 — buffered packets are kept per stream in FIFO order with correct wildcard lookup."""
import itertools

from ..lib import load
from ..storemodel import ShadowStore
from ..tape import Gen, h64
from .common import blank

ID = 'C19'
LEVEL = 'exploration'
TIERS = {'quick': 60000, 'thorough': 4000000}
RULE = ('seeded operation sequences (length 1..60) over {put, find, find_allow_zeros, get (only when a matching entry exists, wildcards included), clear, '
        'clear_all, len, contains} on 2x2 and 3x3 id domains (0 as a real id, None wildcards) and on large random domains, commands OKAY/WRTE/CLSE with per-put unique payloads, 8% of the sequences with a 17..300-deep (thorough: ..1000) backlog on one pair that is then drained, every '
        'call mirrored into an executable reference model (dict of deques; any matching pending pair is accepted for wildcard lookups; put(CLSE) on a pair '
        'without an entry is unspecified). Prelude: the small domains swept completely up to length 3 (3x3 and 2x2; thorough: 2x2 up to length 4), restricted to sequences that start with a put. The same shadow model runs inside every '
        'concurrent simulation (C06). non-trivial = the sequence has a wildcard / zero-fallback lookup while >= 2 pairs are pending; distinct = digests of the op sequence')
ASSUMPTIONS = ['get() is only called when a matching entry exists (its documented precondition)']
EXPECT_PROBES = {'all': ['store_clse_dropped', 'store_clse_parked', 'c19_wildcard_2pending', 'c19_zero_fallback_hit', 'c19_backlog_ge_17', 'c19_backlog_ge_130']}
TECHNIQUE = 'deterministic simulation: seeded operation histories against an executable reference model (model-based), plus the always-on store shadow in concurrent simulations'
CMDS = [b'OKAY', b'WRTE', b'CLSE']


def _new_store():
    return load()['hidden_helpers']._AdbPacketStore()


def generate(seed, tier):
    g = Gen(seed)
    dom = g.pick(['2x2', '3x3', '3x3', 'big'])
    if dom == '2x2':
        ids0, ids1 = [0, 1], [0, 1]
    elif dom == '3x3':
        ids0, ids1 = [0, 1, 2], [0, 1, 2]
    else:
        ids0 = [0] + [g.int(1, 0xFFFFFFFF) for _ in range(g.int(1, 4))]
        ids1 = [0] + [g.int(1, 0xFFFFFFFF) for _ in range(g.int(1, 4))]
    n = g.pick([3, 6, 10, 20, 40, 60])
    ops = []
    for _ in range(n):
        k = g.pick(['put', 'put', 'put', 'find', 'find', 'faz', 'faz', 'get', 'get', 'clear', 'clear_all', 'len', 'contains'], [6, 0, 0, 3, 0, 3, 0, 5, 0, 1, 0.3, 1, 1])
        a0 = g.pick(ids0)
        a1 = g.pick(ids1)
        if k in ('find', 'faz', 'get', 'contains'):
            if g.chance(0.3):
                a0 = None
            if g.chance(0.3):
                a1 = None
        cmd = g.pick([0, 1, 2], [2, 4, 2])
        ops.append([k, a0, a1, cmd, g.int(0, 255)])
        if g.chance(0.04):
            # time passes (a slow consumer): what is parked stays parked, however long
            ops.append(['sleep', 0, 0, 0, g.pick([1, 30, 61, 90, 200])])
    if g.chance(0.08):
        # a deep backlog on one pair (a reader that is far behind), other pairs sprinkled in, then drained: every packet comes
        # back, oldest first, however many are waiting
        depth = g.pick([17, 33, 65, 130, 300, 1000]) if tier != 'quick' else g.pick([17, 33, 65, 130, 300])
        a0, a1 = g.pick(ids0), g.pick(ids1)
        burst = []
        for j in range(depth):
            burst.append(['put', a0, a1, g.pick([0, 1], [1, 5]), g.int(0, 255)])
            if g.chance(0.1):
                burst.append(['put', g.pick(ids0), g.pick(ids1), 2, g.int(0, 255)])
            if g.chance(0.05):
                burst.append([g.pick(['find', 'faz', 'len', 'contains']), a0, a1, 0, 0])
        drain = [['get', a0, g.pick([a1, None]), 0, 0] for _ in range(depth + 2)]
        at = g.int(0, len(ops))
        ops = ops[:at] + burst + drain + ops[at:]
        dom += '+backlog'
    return {'seed': seed, 'ops': ops, 'dom': dom}


def run_ops(ops):
    from ..clock import SimClock, TimeShim, patch_clock_refs, unpatch_clock_refs
    hh = load()['hidden_helpers']
    clock = SimClock()
    # the store has no business with the clock (and does not read one on the pinned tree); if it ever does, it reads this one
    saved = patch_clock_refs(hh, TimeShim(clock))
    try:
        return _run_ops(ops, clock)
    finally:
        unpatch_clock_refs(saved)


def _run_ops(ops, clock):
    sh = ShadowStore(_new_store())
    wild = 0
    zero_hit = 0
    for i, (k, a0, a1, cmd, b) in enumerate(ops):
        try:
            if k == 'put':
                # payloads are unique per put (so that an out-of-order delivery is attributable), except for a share of empty ones
                sh.put(a0, a1, CMDS[cmd], b'' if b % 5 == 0 else bytes([b, i & 0xFF, (i >> 8) & 0xFF]))
            elif k == 'find':
                sh.find(a0, a1)
            elif k == 'faz':
                r = sh.find_allow_zeros(a0, a1)
                if r is not None and tuple(r) != (a0, a1):
                    zero_hit += 1
            elif k == 'get':
                if sh.model.candidates(a0, a1):
                    sh.get(a0, a1)
            elif k == 'clear':
                if a0 is not None and a1 is not None:
                    sh.clear(a0, a1)
            elif k == 'clear_all':
                sh.clear_all()
            elif k == 'len':
                len(sh)
            elif k == 'contains':
                (a0, a1) in sh
            elif k == 'sleep':
                clock.advance(float(b))
        except Exception as e:    # noqa
            sh._err('%s(%r,%r) raised %s: %s' % (k, a0, a1, type(e).__name__, e))
    return sh, zero_hit


def evaluate(case, tapes=None):
    out = blank()
    sh, zero_hit = run_ops(case['ops'])
    out['execs'] = 1
    out['violations'] = [('store-model', m) for m in sh.errors[:3]]
    out['probes'] = dict(sh.probes)
    if sh.wild_with_2_pending:
        out['probes']['c19_wildcard_2pending'] = 1
    if zero_hit:
        out['probes']['c19_zero_fallback_hit'] = 1
    if sh.max_depth >= 17:
        out['probes']['c19_backlog_ge_17'] = 1
    if sh.max_depth >= 130:
        out['probes']['c19_backlog_ge_130'] = 1
    out['nontrivial'] = sh.wild_with_2_pending > 0
    out['digest'] = h64(case['ops'])
    out['sample'] = {'domain': case['dom'], 'ops': [[o[0], o[1], o[2], CMDS[o[3]].decode()] for o in case['ops'][:12]], 'n_ops': len(case['ops'])}
    out['tapes'] = []
    return out


def shrink(case):
    ops = case['ops']
    for i in range(len(ops) - 1, -1, -1):
        c = dict(case)
        c['ops'] = ops[:i] + ops[i + 1:]
        yield c


def _alphabet(ids):
    al = []
    wid = list(ids) + [None]
    for a0 in ids:
        for a1 in ids:
            for c in range(3):
                al.append(['put', a0, a1, c, 1])
            al.append(['clear', a0, a1, 0, 0])
    for a0 in wid:
        for a1 in wid:
            al.append(['find', a0, a1, 0, 0])
            al.append(['faz', a0, a1, 0, 0])
            al.append(['get', a0, a1, 0, 0])
            al.append(['contains', a0, a1, 0, 0])
    al.append(['clear_all', 0, 0, 0, 0])
    al.append(['len', 0, 0, 0, 0])
    return al


def _sweep_part(args):
    ids, depth, first = args
    al = _alphabet(ids)
    n = 0
    bad = None
    for L in range(1, depth + 1):
        for rest in itertools.product(al, repeat=L - 1):
            seq = (al[first],) + rest
            n += 1
            sh, _ = run_ops(seq)
            if sh.errors and bad is None:
                bad = (sh.errors[0], [list(o) for o in seq])
    return n, bad


def prelude(tier):
    """Complete sweep of the small domains (deterministic; cheap). The deciding step is the seeded search."""
    import concurrent.futures as cf
    import multiprocessing
    res = {'evaluations': 0, 'distinct': 0, 'violations': [], 'exhaustive': True, 'swept': []}
    plans = [([0, 1, 2], 3), ([0, 1], 3)] if tier == 'quick' else [([0, 1, 2], 3), ([0, 1], 4)]
    tasks = []
    for ids, depth in plans:
        al = _alphabet(ids)
        for i, op in enumerate(al):
            if op[0] == 'put':       # sequences not starting with a put act on an empty store: nothing to distinguish
                tasks.append((ids, depth, i))
    with cf.ProcessPoolExecutor(max_workers=16, mp_context=multiprocessing.get_context('fork')) as ex:
        outs = list(ex.map(_sweep_part, tasks))
    for (ids, depth) in plans:
        n = sum(o[0] for t, o in zip(tasks, outs) if t[0] == ids)
        res['swept'].append({'ids': ids, 'max_len': depth, 'alphabet': len(_alphabet(ids)), 'sequences_starting_with_put': n})
        res['evaluations'] += n
    for t, o in zip(tasks, outs):
        if o[1] is not None and len(res['violations']) < 2:
            res['violations'].append(('store-model', o[1][0], {'seed': 0, 'ops': o[1][1], 'dom': 'sweep'}))
    return res
