"""C02 — every packet the host emits is a well-formed ADB message (independent decoder on the peer side)."""
from .. import oracles as O
from .. import scenario as S
from .. import wire as W
from ..lib import load
from ..tape import Gen
from .common import absorb, blank, brief_scn, run_scn, termination

ID = 'C02'
LEVEL = 'exploration'
TIERS = {'quick': 5000, 'thorough': 250000}
RULE = ('seeded sessions over all operations pushed to the extremes the API can produce (local-id counter preset near 2^32, device remote ids up '
        'to 2^32-1, maxdata up to 1 MiB (rarely 2-3 MiB, with a push that fills such a message) with 0xFF-filled pushes, bytes and bytearray payloads, DONE mtimes up to 2^32-1, long paths; a fifth of the sessions authenticate with 1-4 keys against a device that rejects the first ones); every host '
        'byte is parsed by an independent decoder, and on the in-memory transport (no write can fail) the host byte stream must end at a message boundary at the end of the session; non-trivial = the run carried >= 1 payload packet and >= 4 packets; distinct = event-log digests')
ASSUMPTIONS = ['the pack/unpack clause is exercised only at the values simulated sessions produce (incl. 32-bit extremes); no separate input fuzzer is claimed']
EXPECT_PROBES = {'all': ['c02_arg_ge_2_31', 'c02_payload_sum_ge_2_24', 'c02_payload_ge_64k', 'c02_auth_messages', 'c02_newer_version_64k', 'c02_tcp_backpressure', 'debug_logging_on', 'c02_payload_gt_1mib']}
KINDS = ['shell', 'exec_out', 'streaming_shell', 'root', 'list', 'stat', 'pull', 'push', 'push', 'push']
OWN = ('wire-format', 'wire-partial-message', 'unpack-mismatch', 'hang', 'no-termination')


def generate(seed, tier):
    g = Gen(seed)
    big = 30000 if tier == 'quick' else 300000
    scn = S.session(g.int(0, 1 << 60), KINDS, nmax=5, big=big)
    d = scn['device']
    c = g.int(0, 9)
    if c <= 3:
        scn['object']['local_id'] = g.pick([0xFFFFFFFF - 1, 0xFFFFFFFF - 2, 0xFFFFFFF0, 0x7FFFFFFF, 0x80000000, 0xFFFFFFFF - 5])
        d['rid_style'] = 'high'
    if c in (2, 3, 4, 5):
        # large 0xFF-filled push: the largest checksums the API can produce
        d['maxdata'] = g.pick([1048576, 262144, 131072, 1048576])
        size = g.pick([70000, 140000, 300000]) if tier == 'quick' else g.pick([70000, 300000, 1100000, 2200000])
        if g.chance(0.06):
            # a device that takes more per message than the host's own 1 MiB, and a file that fills such a message
            d['maxdata'] = g.pick([2097152, 3145728])
            size = d['maxdata'] + g.pick([-70000, 100, 300000])
        scn['actors'][0].append({'op': 'push', 'src': g.pick(['bytesio', 'file']), 'content': {'seed': 1, 'size': size, 'alpha': 'ff'},
                                 'path': '/data/' + 'p' * g.pick([1, 200, 1000]), 'mtime': g.pick([0xFFFFFFFF, 0x80000000, 0]), 'mode': 0o100644})
        scn['config']['frag'] = 'whole'
    if g.chance(0.3):
        # the device announces a newer protocol version than the library's 0x01000000: the connection runs at the lower of the two,
        # so the device still verifies every checksum
        d['version'] = g.pick([0x01000001, 0x01000001, 0x01000002, 0xFFFFFFFF])
    if scn['api'] == 'async' and g.chance(0.25):
        # real TcpTransportAsync over the simulated asyncio transport, a slow reader and a small kernel buffer: what asyncio has
        # queued when drain() returns must still reach the wire exactly once
        scn['transport'] = 'tcp'
        scn['tcp'] = {'sndbuf': g.pick([256, 4096, 65536]), 'drain': g.pick([64, 1000, 30000]), 'drain_every': g.pick([1e-4, 1e-3]),
                      'high_water': g.pick([4096, 65536])}
        scn['config'].pop('short', None)
    if g.chance(0.15):
        scn['config']['log_debug'] = True      # what goes on the wire must not depend on the log level
    if g.chance(0.2):
        # AUTH messages: several keys, the device accepts a later one (or only the public key), fresh token per challenge
        nk = g.int(1, 4)
        idxs = [0, 1, 2, 3]
        g.r.shuffle(idxs)
        keys = [[idxs[i], g.pick(['pythonrsa', 'cryptography', 'pycryptodome', 'pythonrsa_u'])] for i in range(nk)]
        d['auth'] = [{'accept_key': g.pick([keys[-1][0], keys[-1][0], None]), 'pubkey': 'accept', 'think_s': 0.0}]
        scn['actors'][0][0]['keys'] = keys
        scn['actors'][0][0]['at'] = 5.0
    return {'seed': seed, 'scn': scn}


def evaluate(case, tapes=None):
    out = blank()
    scn = case['scn']
    run, tape = run_scn(case, 'scn', 0, tapes)
    absorb(out, run, tape)
    probs = O.monitors(run, ('c02',)) + O.end_of_call_boundary(run) + termination(run)
    unpack = load()['adb_message'].unpack
    npay = 0
    pr = out['probes']
    for (name, a0, a1, data, hdr) in run.device.host_log_full:
        cmd, b0, b1, ln, ck, magic = W.parse_header(hdr)
        try:
            got = tuple(unpack(hdr))
        except Exception as e:   # noqa
            got = ('raised', type(e).__name__)
        if got != (cmd, b0, b1, ln, ck):
            probs.append(O.P('unpack-mismatch', 'adb_message.unpack(%s) returned %r, header fields are %r' % (hdr.hex(), got, (cmd, b0, b1, ln, ck))))
        if data:
            npay += 1
        if a0 >= 1 << 31 or a1 >= 1 << 31:
            pr['c02_arg_ge_2_31'] = pr.get('c02_arg_ge_2_31', 0) + 1
        if ck >= 1 << 24:
            pr['c02_payload_sum_ge_2_24'] = pr.get('c02_payload_sum_ge_2_24', 0) + 1
        if name == 'AUTH':
            pr['c02_auth_messages'] = pr.get('c02_auth_messages', 0) + 1
        if ln > 1048576:
            pr['c02_payload_gt_1mib'] = pr.get('c02_payload_gt_1mib', 0) + 1
        if ln >= 65536:
            pr['c02_payload_ge_64k'] = pr.get('c02_payload_ge_64k', 0) + 1
            if scn['device'].get('version', W.A_VERSION) > W.A_VERSION:
                pr['c02_newer_version_64k'] = pr.get('c02_newer_version_64k', 0) + 1
    dv = run.device
    if scn.get('transport', 'mem') == 'mem' and not run.abort and not run.link.faults_fired and not dv.broken and (dv.rx_hdr is not None or dv.rxbuf):
        # no write ever failed in this run (in-memory transport, no fault): what the host has sent ends with a complete message
        if dv.rx_hdr is not None:
            ln = W.parse_header(dv.rx_hdr)[3]
            probs.append(O.P('wire-partial-message', 'the last header (%s) announces %d payload bytes, only %d followed by the end of the session although no transport write failed' % (W.NAMES.get(W.parse_header(dv.rx_hdr)[0], '?'), ln, len(dv.rxbuf))))
        else:
            probs.append(O.P('wire-partial-message', '%d bytes of a header at the end of the session although no transport write failed' % len(dv.rxbuf)))
    if scn.get('transport') == 'tcp' and getattr(run.sock, 'backlogged', 0):
        pr['c02_tcp_backpressure'] = pr.get('c02_tcp_backpressure', 0) + 1
    out['violations'] = [p for p in probs if p[0] in OWN]
    out['notes'] = O.check_session(run, scn)
    out['nontrivial'] = npay >= 1 and len(run.device.host_pkts) >= 4
    out['digest'] = run.digest()
    out['sample'] = brief_scn(scn, run)
    out['sample']['host_packets'] = ['%s(%d,%d,%dB,sum=%d)' % (p[1], p[2], p[3], p[4], p[5]) for p in run.device.host_pkts[:10]]
    return out
