"""C18 — TCP transports honour the transport contract (real transport classes on a simulated kernel endpoint)."""
import copy

from .. import oracles as O
from .. import scenario as S
from ..device import expand
from ..tape import Gen, h64
from .common import absorb, blank, brief_scn, run_scn, termination

ID = 'C18'
LEVEL = 'exploration'
TIERS = {'quick': 5000, 'thorough': 200000}
RULE = ('two families, each through the real TcpTransport (on simulated socket+select modules) and the real TcpTransportAsync (real asyncio streams and '
        'async_timeout on a simulated asyncio.Transport): (a) transport scripts against a raw byte peer that writes seeded chunks with pauses: reads of '
        'seeded sizes and timeouts (None with data eventually arriving, small), writes against small send buffers and a slow reader (also while the bytes of the peer are still unread; a write that times out does so not before its timeout), EOF, a peer reset (RST) followed by close() and connect(), close twice, '
        'reconnect, and (sync) a second TcpTransport object of the same process with its own peer used between those calls; oracles: each read returns <= n bytes, the concatenation of reads equals the peer\'s bytes in order, an empty wire raises '
        'TcpTimeoutException not before the timeout and later data still arrives, bytes reported as written reach the peer in order; (b) whole device '
        'sessions (connect, shell, list, stat, pull, push) over TCP compared with ground truth and with the same session over the in-memory transport. '
        'non-trivial = a read returned fewer bytes than requested and a timeout occurred in the run (a), or the session moved >= 1 fragmented read (b); '
        'distinct = event-log digests')
ASSUMPTIONS = ['the deciding runs use a model of the kernel endpoint (real sockets cannot be replayed); the model is compared with the loopback stack by ./check selftest-sockmodel, outside the registered checks',
               'real: TcpTransport, TcpTransportAsync, asyncio.StreamReader/StreamWriter/StreamReaderProtocol, async_timeout']
EXPECT_PROBES = {'all': ['c18_script', 'c18_session', 'c18_timeout_seen', 'c18_short_read', 'c18_reconnect', 'c18_double_close', 'short_writes', 'backpressure_pause', 'c18_peer_reset', 'peer_eof', 'c18_poll_with_data', 'c18_sibling_transport', 'c18_write_timeout_with_unread_input']}
REAL_VS_STUB = {'real': ['adb_shell.transport.tcp_transport.TcpTransport', 'adb_shell.transport.tcp_transport_async.TcpTransportAsync', 'asyncio streams + async_timeout',
                         'adb_shell.adb_device[_async] (session family)'],
                'stub': ['kernel socket + select (simadb.simsock)', 'asyncio.Transport + event loop selector (simadb.simsock / aioloop)', 'peer: raw byte script or adbd model', 'clock']}
OWN = ('read-too-long', 'bytes-differ', 'timeout-early', 'timeout-missing', 'timeout-with-data', 'lost-after-timeout', 'close-not-idempotent', 'reconnect-failed', 'write-lost', 'wrong-result',
       'unexpected-exception', 'timeout-instead-of-result', 'differs-from-memory', 'hang', 'no-termination', 'wire-format', 'wrong-exception', 'missing-exception')
KINDS = ['shell', 'exec_out', 'list', 'stat', 'pull', 'push']


def gen_script(g):
    chunks = []
    total = 0
    for _ in range(g.int(1, 8)):
        n = g.pick([1, 2, 24, 100, 1000, 5000, g.int(1, 3000)])
        delay = g.pick([0.0, 0.0, 0.001, 0.3, 2.0])
        chunks.append([delay, g.bytes(n).hex()])
        total += n
    ops = [{'op': 't_connect', 'timeout': g.pick([None, 1.0, 5.0])}]
    if g.chance(0.3):
        # a poll: everything the peer wrote has arrived long ago, the read is given a timeout of 0 -- it returns what is there
        ops.append({'op': 'sleep', 'dt': sum(c[0] for c in chunks) + 5.0})
        ops.append({'op': 't_read', 'n': g.pick([1, 24, 4096]), 'timeout': 0, 'poll_with_data': True})
    if g.chance(0.25):
        # writes while the peer's bytes are still unread: a full send buffer and a readable socket at the same time
        ops.append({'op': 'sleep', 'dt': g.pick([0.01, 3.0])})
        for _ in range(g.int(2, 3)):
            ops.append({'op': 't_write', 'content': {'seed': g.int(0, 999), 'size': g.pick([5000, 70000]), 'alpha': 'bin'}, 'timeout': g.pick([0.5, 1.0]), 'early': True})
    # reads: enough to drain everything, with timeouts smaller than some pauses
    want = total
    guard = 0
    while want > 0 and guard < 200:
        n = g.pick([1, 24, 100, 4096, 65536, g.int(1, 2000)])
        ops.append({'op': 't_read', 'n': n, 'timeout': g.pick([0.1, 0.5, 5.0, 5.0, None])})
        want -= min(n, want) if g.chance(0.7) else 0
        guard += 1
    for _ in range(12):
        ops.append({'op': 't_read', 'n': 65536, 'timeout': 3.0})
    # a read on an empty wire
    ops.append({'op': 't_read', 'n': g.pick([1, 24, 4096]), 'timeout': g.pick([0.05, 0.5, 2.0])})
    # writes
    for _ in range(g.int(0, 3)):
        ops.append({'op': 't_write', 'content': {'seed': g.int(0, 999), 'size': g.pick([1, 24, 1000, 5000, 70000]), 'alpha': 'bin'}, 'timeout': g.pick([1.0, 5.0])})
    ops.append({'op': 'sleep', 'dt': 30.0})
    ops.append({'op': 't_close'})
    if g.chance(0.7):
        ops.append({'op': 't_close'})
    if g.chance(0.6):
        ops.append({'op': 't_connect', 'timeout': g.pick([None, 2.0])})
        ops.append({'op': 't_read', 'n': 4096, 'timeout': 5.0})
        ops.append({'op': 't_close'})
    return chunks, ops


def add_sibling(g, ops):
    """A second TcpTransport object of the same process, connected to another peer, is used between the calls of the first one. Its peer has
    data waiting most of the time (also while the first transport waits for its own peer). Neither transport may notice the other."""
    size = g.pick([1, 24, 300, 5000])
    inbox = {'seed': g.int(0, 999), 'size': size, 'alpha': 'bin'}
    first = next(i for i, o in enumerate(ops) if o['op'] == 't_read' and not o.get('poll_with_data'))
    last = max(i for i, o in enumerate(ops) if o['op'] == 't_close')
    ops.insert(first, {'op': 't_sib_connect', 'timeout': g.pick([None, 1.0, 5.0]), 'inbox': inbox})
    left = size
    extra = []
    for _ in range(g.int(0, 4)):
        if g.chance(0.5) and left > 1:
            n = g.int(1, left - 1)
            extra.append({'op': 't_sib_read', 'n': n, 'timeout': g.pick([0, 0.5, None])})
            left -= n
        else:
            extra.append({'op': 't_sib_write', 'content': {'seed': g.int(0, 999), 'size': g.pick([1, 24, 1000]), 'alpha': 'bin'}, 'timeout': g.pick([1.0, None])})
    tail = [{'op': 't_sib_read', 'n': 65536, 'timeout': g.pick([0, 0.5])}, {'op': 't_sib_close'}]
    if g.chance(0.3):
        tail.append({'op': 't_sib_close'})
    early = g.chance(0.3)       # the sibling is closed while the first transport is still in use
    for e in extra:
        ops.insert(g.int(first + 1, last + 1), e)
        last += 1
    lo = max(i for i, o in enumerate(ops) if o['op'].startswith('t_sib_')) + 1
    at = g.int(lo, len(ops)) if early else len(ops)
    ops[at:at] = tail
    return inbox


def gen_reset_script(g):
    """The peer resets the connection (RST) during a read or a write; then close() and connect() must give a working transport again."""
    chunks = [[g.pick([0.0, 0.001]), g.bytes(g.pick([24, 100, 1000])).hex()] for _ in range(g.int(2, 4))]
    ops = [{'op': 't_connect', 'timeout': g.pick([None, 2.0])}]
    for _ in range(g.int(0, 2)):
        ops.append({'op': 't_read', 'n': g.pick([24, 4096]), 'timeout': 2.0})
    # the call at this index is hit by the reset
    fault_at = len(ops) - 1 + g.int(0, 1)
    ops.append({'op': g.pick(['t_read', 't_write']), 'n': 100, 'timeout': 2.0, 'content': {'seed': 3, 'size': 50, 'alpha': 'bin'}})
    ops.append({'op': g.pick(['t_read', 't_write']), 'n': 100, 'timeout': 2.0, 'content': {'seed': 4, 'size': 50, 'alpha': 'bin'}})
    ops.append({'op': 't_close'})
    if g.chance(0.5):
        ops.append({'op': 't_close'})
    ops.append({'op': 't_connect', 'timeout': g.pick([None, 2.0])})
    for _ in range(8):
        ops.append({'op': 't_read', 'n': 4096, 'timeout': 3.0})
    ops.append({'op': 't_close'})
    return chunks, ops, fault_at


def generate(seed, tier):
    g = Gen(seed)
    api = g.pick(['sync', 'async'])
    tcp = {'sndbuf': g.pick([64, 512, 4096, 65536]), 'drain': g.pick([1, 64, 1000, 100000]), 'drain_every': g.pick([1e-5, 1e-3, 0.02]), 'high_water': g.pick([64, 4096, 65536])}
    if g.chance(0.12):
        chunks, ops, fault_at = gen_reset_script(g)
        scn = {'api': api, 'transport': 'tcp', 'tcp': tcp, 'device': {'raw_peer': True, 'script': chunks}, 'actors': [ops],
               'config': {'frag': g.pick(['whole', 'mixed']), 'call_cost': 1e-5, 'shadow_store': False, 'reset_at_op': fault_at}, 'object': {'banner': 'x'}}
        return {'seed': seed, 'scn': scn, 'family': 'script', 'reset': True}
    if g.chance(0.45):
        chunks, ops = gen_script(g)
        dev = {'raw_peer': True, 'script': chunks}
        if api == 'sync' and g.chance(0.3):
            add_sibling(g, ops)
        if g.chance(0.3):
            dev['eof_after'] = True      # the peer closes its side after its last chunk: reads see end-of-stream, they must still return
        scn = {'api': api, 'transport': 'tcp', 'tcp': tcp, 'device': dev, 'actors': [ops],
               'config': {'frag': g.pick(['whole', 'mixed', 'uniform', 'one']), 'call_cost': 1e-5, 'shadow_store': False}, 'object': {'banner': 'x'}}
        return {'seed': seed, 'scn': scn, 'family': 'script'}
    big = 20000 if tier == 'quick' else 200000
    scn = S.session(g.int(0, 1 << 60), KINDS, nmax=4, big=big, api=api)
    scn['transport'] = 'tcp'
    tcp['drain'] = g.pick([64, 1000, 100000])
    tcp['drain_every'] = g.pick([1e-5, 1e-4])
    scn['tcp'] = tcp
    for op in scn['actors'][0]:
        if op['op'] == 'connect':
            op['tt'] = g.pick([None, 5.0, 9.0])
            if op['tt'] is None:
                del op['tt']
        if op['op'] == 'push' and not op.get('mtime'):
            op['mtime'] = 77
    return {'seed': seed, 'scn': scn, 'family': 'session'}


def _reconnected_since(recs, a, i):
    return any(r['spec']['op'] == 't_connect' and r['ok'] for r in recs[a + 1:i])


def eval_script(case, tapes, out):
    scn = case['scn']
    run, tape = run_scn(case, 'scn', 0, tapes)
    absorb(out, run, tape)
    probs = termination(run)
    peer = run.device
    recs = run.results[0]
    pr = out['probes']
    pr['c18_script'] = 1
    if any(o.get('poll_with_data') for o in scn['actors'][0]):
        pr['c18_poll_with_data'] = 1
    sess_bytes = bytes(b''.join(bytes.fromhex(h) for (_, h) in scn['device']['script']))
    written = bytearray()
    sessions = []          # bytes read per connection
    broken = False
    last_connect_idx = 0
    reset_op = scn['config'].get('reset_at_op', 1 << 30)
    last_read_timed_out = {}
    flushed = False
    unknown = None
    short = False
    tmo = False
    closes_in_row = 0
    for i, r in enumerate(recs):
        op = r['spec']
        k = op['op']
        if r.get('exc') in ('SimAbort', 'SimHang'):
            break
        if k == 't_connect':
            closes_in_row = 0
            broken = False
            last_connect_idx = i
            if sessions:
                pr['c18_reconnect'] = 1
            if not r['ok']:
                probs.append(O.P('reconnect-failed' if sessions else 'unexpected-exception', 'op#%d connect raised %s: %s' % (i, r['exc'], r.get('msg'))))
            sessions.append(bytearray())
        elif k == 't_close':
            closes_in_row += 1
            flushed = True
            if closes_in_row > 1:
                pr['c18_double_close'] = 1
            if not r['ok']:
                probs.append(O.P('close-not-idempotent', 'op#%d close() #%d in a row raised %s: %s' % (i, closes_in_row, r['exc'], r.get('msg'))))
        elif k in ('t_read', 't_write') and (broken or run.link.faults_fired and i >= reset_op and not _reconnected_since(recs, reset_op, i)):
            # the peer reset the connection: until the next connect() any error is legitimate
            broken = True
            pr['c18_peer_reset'] = 1
            continue
        elif k == 't_read':
            if closes_in_row or not sessions:
                continue        # reading a closed transport: outside the statement
            if r['ok']:
                v = r['value']
                if r.get('skipped'):
                    continue
                if len(v) > op['n']:
                    probs.append(O.P('read-too-long', 'op#%d bulk_read(%d) returned %d bytes' % (i, op['n'], len(v))))
                if len(v) < op['n']:
                    short = True
                sessions[-1] += v
                last_read_timed_out[len(sessions) - 1] = False
            elif r['exc'] == 'TcpTimeoutException' and op.get('poll_with_data') and len(sess_bytes) > len(sessions[-1]):
                probs.append(O.P('timeout-with-data', 'op#%d bulk_read(%d, 0) raised TcpTimeoutException although %d bytes from the peer had been waiting for %.1f s' % (i, op['n'], len(sess_bytes) - len(sessions[-1]), recs[i - 1]['spec'].get('dt', 0))))
            elif r['exc'] == 'TcpTimeoutException':
                tmo = True
                last_read_timed_out[len(sessions) - 1] = True
                dt = r['t1'] - r['t0']
                if op.get('timeout') is None:
                    probs.append(O.P('timeout-early', 'op#%d bulk_read(%d, None) raised TcpTimeoutException after %.3f virtual s although it was given no timeout (%s)' % (i, op['n'], dt, r.get('msg'))))
                elif dt < op['timeout'] - 1e-6:
                    probs.append(O.P('timeout-early', 'op#%d bulk_read(%d, %r) raised TcpTimeoutException after %.6f virtual s' % (i, op['n'], op['timeout'], dt)))
                # nothing may have been readable at the moment it gave up
            else:
                probs.append(O.P('wrong-exception', 'op#%d bulk_read raised %s: %s' % (i, r['exc'], r.get('msg'))))
        elif k == 't_write':
            if closes_in_row or not sessions:
                continue
            data = expand(op['content'])
            if r['ok']:
                n = r['value'] if isinstance(r['value'], int) else len(data)
                if unknown is None:
                    written += data[:n]
                flushed = False
            elif r['exc'] != 'TcpTimeoutException':
                probs.append(O.P('wrong-exception', 'op#%d bulk_write raised %s: %s' % (i, r['exc'], r.get('msg'))))
            elif op.get('timeout') and r['t1'] - r['t0'] < op['timeout'] - 1e-6:
                probs.append(O.P('timeout-early', 'op#%d bulk_write(%d bytes, %r) raised TcpTimeoutException after %.6f virtual s' % (i, len(data), op['timeout'], r['t1'] - r['t0'])))
            elif unknown is None:
                unknown = data      # a raising write may have delivered any prefix; later writes are not comparable
    if not run.abort:
        for si, got in enumerate(sessions):
            if bytes(got) != sess_bytes[:len(got)]:
                j = O.first_diff(bytes(got), sess_bytes)
                probs.append(O.P('bytes-differ', 'connection #%d: the bytes read are not what the peer wrote (first difference at offset %d of %d read)' % (si, j, len(got))))
            sent = bytes(peer.sent_sessions[si]) if si < len(peer.sent_sessions) else b''
            # everything the kernel handed over must have come out of bulk_read: nothing lost, also after a timeout
            handed = len(sent) - (len(run.link.cur.raw) - run.link.off if (si == len(sessions) - 1 and run.link.cur is not None) else 0)
            pending = 0
            exact = scn['api'] == 'sync'
            if scn['api'] == 'async':
                rd = getattr(run.transport, '_reader', None)
                if rd is not None and si == len(sessions) - 1:
                    pending = len(getattr(rd, '_buffer', b''))
                    exact = True
            if exact and si == len(sessions) - 1:
                if len(got) + pending != handed:
                    probs.append(O.P('lost-after-timeout' if tmo else 'bytes-differ', 'connection #%d: %d bytes left the peer and were consumed from the socket, bulk_read returned %d (+%d still buffered)' % (si, handed, len(got), pending)))
        rec = bytes(peer.received)
        if case.get('reset'):
            pass        # writes around the reset may or may not have left the host: not comparable
        elif unknown is not None:
            w = bytes(written)
            tail = rec[len(w):]
            if rec[:len(w)] != w[:len(rec)] or (len(rec) > len(w) and tail != unknown[:len(tail)] and not tail.startswith(unknown)):
                probs.append(O.P('write-lost', 'the peer received bytes that are neither the confirmed writes nor a prefix of the write that raised'))
        elif rec != bytes(written)[:len(rec)]:
            probs.append(O.P('write-lost', 'the peer received %d bytes that are not a prefix of the %d bytes bulk_write reported as written' % (len(rec), len(written))))
        elif len(rec) < len(written) and flushed:
            probs.append(O.P('write-lost', 'bulk_write reported %d bytes written in total; the peer received only %d by the time the connection was closed and flushed' % (len(written), len(rec))))
    sib = [r for r in recs if r['op'].startswith('t_sib_')]
    if sib and not run.abort:
        pr['c18_sibling_transport'] = 1
        inbox = expand(sib[0]['spec']['inbox'])
        got_s = bytearray()
        put_s = bytearray()
        closed_s = False
        for r in sib:
            if r.get('exc') in ('SimAbort', 'SimHang'):
                break
            if not r['ok']:
                probs.append(O.P('wrong-exception', 'the second TcpTransport object (own peer, data waiting, room to write): %s raised %s: %s' % (r['op'], r['exc'], r.get('msg'))))
                break
            if r['op'] == 't_sib_close':
                closed_s = True
            if r['op'] == 't_sib_read' and not closed_s:
                got_s += r['value']
            if r['op'] == 't_sib_write' and not closed_s:
                put_s += expand(r['spec']['content'])[:r['value'] if isinstance(r['value'], int) else None]
        if bytes(got_s) != inbox[:len(got_s)]:
            probs.append(O.P('bytes-differ', 'the second TcpTransport object read bytes that its own peer did not write'))
        w = getattr(run, 'tcp_world', None)
        if w is not None and w.siblings and bytes(w.siblings[0].sent) != bytes(put_s):
            probs.append(O.P('write-lost', 'the second TcpTransport object: %d bytes reported as written, its peer received %d' % (len(put_s), len(w.siblings[0].sent))))
    if case.get('reset') and not run.abort and len(sessions) >= 2:
        # after close() + connect() the transport must be connected to the (new) peer: its bytes arrive again
        tried = sum(1 for r in recs[last_connect_idx + 1:] if r['spec']['op'] == 't_read' and not r.get('skipped'))
        if len(sessions[-1]) == 0 and len(sess_bytes) > 0 and tried >= 2:
            probs.append(O.P('reconnect-failed', 'after the peer reset the connection, close() and connect() returned normally but nothing can be read from the new connection'))
    if any(r['spec'].get('early') and not r['ok'] and r.get('exc') == 'TcpTimeoutException' for r in recs):
        pr['c18_write_timeout_with_unread_input'] = 1
    if tmo:
        pr['c18_timeout_seen'] = 1
    if short:
        pr['c18_short_read'] = 1
    out['nontrivial'] = short and tmo
    out['digest'] = run.digest()
    out['sample'] = {'family': 'script', 'api': scn['api'], 'tcp': scn['tcp'], 'peer_chunks': [(d, len(h) // 2) for d, h in scn['device']['script']],
                     'ops': [(r['op'], r['spec'].get('n'), r['spec'].get('timeout'), (len(r['value']) if isinstance(r['value'], (bytes, bytearray)) else r['value']) if r['ok'] else r['exc']) for r in recs[:14]]}
    return probs


def eval_session(case, tapes, out):
    scn = case['scn']
    run, tape = run_scn(case, 'scn', 0, tapes, seed_idx=0)
    absorb(out, run, tape)
    pr = out['probes']
    pr['c18_session'] = 1
    probs = termination(run) + O.check_session(run, scn) + O.monitors(run, ('c02',))
    mem = copy.deepcopy(scn)
    mem['transport'] = 'mem'
    c2 = dict(case)
    c2['scn_mem'] = mem
    run2, tape2 = run_scn(c2, 'scn_mem', 1, tapes, seed_idx=0)
    absorb(out, run2, tape2)
    from .C03 import _res_key
    a = [_res_key(r) for r in run.results[0]]
    b = [_res_key(r) for r in run2.results[0]]
    if a != b:
        j = next((i for i in range(min(len(a), len(b))) if a[i] != b[i]), min(len(a), len(b)))
        probs.append(O.P('differs-from-memory', 'session over TCP differs from the in-memory transport at op#%d: %r vs %r' % (j, a[j:j + 1], b[j:j + 1])))
    out['nontrivial'] = run.link.frag_reads > 0 or run.link.short_writes > 0
    out['digest'] = run.digest()
    out['sample'] = brief_scn(scn, run)
    out['sample']['tcp'] = scn['tcp']
    out['sample']['family'] = 'session'
    return probs


def evaluate(case, tapes=None):
    out = blank()
    if case.get('family') == 'script':
        probs = eval_script(case, tapes, out)
    else:
        probs = eval_session(case, tapes, out)
    out['violations'] = [p for p in probs if p[0] in OWN]
    return out
