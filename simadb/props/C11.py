"""C11 — no operation hangs: a stalled device produces a timeout error in bounded time."""
import copy

from .. import oracles as O
from .. import scenario as S
from ..tape import Gen
from .common import absorb, blank, brief_scn, exc_chain, run_scn

ID = 'C11'
LEVEL = 'fault_enumeration'
TIERS = {'quick': 6000, 'thorough': 300000}
RULE = ('each case = (operation, timeout grid point, stall kind, await point): a fault-free probe run counts the packets the device emits for connect + one '
        'operation (shell, exec_out, streaming_shell, root, reboot, list, stat, pull, push); the device then stalls after the k-th packet (k sampled over all '
        'await points: CNXN reply, OPEN\'s OKAY, each data WRTE, each OKAY to a WRITE, each sync record, the final CLSE) with kind in {silence, EOF (empty '
        'reads), trickle (1 byte per 0.9*T), foreign-stream traffic only, unexpected commands only, endless own-stream WRTEs against timeout_s}, under '
        '(transport_timeout_s, read_timeout_s, timeout_s) drawn from {None, negative, 0, small, large}^3 where the API accepts them, on the virtual clock; 8 % of the cases stall connect() while it waits for the CNXN after offering its public key (auth_timeout_s in {0, 0.5, 2, 5}). '
        'non-trivial / distinct = distinct (operation, await point index, stall kind, grid point) tuples in which the stall actually began inside a call')
ASSUMPTIONS = ['bound: elapsed virtual time since the stall began <= 6*(R+ + T+) + timeout_s+ + slack, with R, T the effective values (DESIGN C11)',
               'auth_timeout_s=None is excluded (documented "wait forever")', 'every transport call costs a small positive virtual time; empty reads at EOF cost idle_cost']
EXPECT_PROBES = {'all': ['stall_began', 'filler_foreign', 'filler_unexpected', 'filler_endless', 'c11_trickle', 'c11_eof', 'c11_in_connect', 'c11_timeout_raised', 'c11_auth_wait', 'c11_mid_packet', 'c11_big_payload_stall', 'filler_wrte_after_host_close']}
OWN = ('returned-wrong-data', 'wrong-exception', 'bound-exceeded', 'hang', 'no-termination', 'timeout-order', 'fabricated-data')
KINDS = ['shell', 'exec_out', 'streaming_shell', 'root', 'reboot', 'list', 'stat', 'pull', 'push']
STALLS = ['silence', 'eof', 'trickle', 'foreign', 'unexpected', 'endless']
TT = [None, -1.0, 0.0, 0.3, 2.0, 50.0]
RT = [None, -1.0, 0.0, 0.5, 3.0]
TO = [None, -1.0, 0.0, 1.0, 4.0]


def eff(op, default_tt):
    rt = op.get('rt', 10.0)
    to = op.get('to')
    R = rt if to is None else min(rt, to)
    tt = op.get('tt', default_tt)
    T = R if tt is None else min(tt, R)
    return T, R, to


def gen_auth_wait(seed, g):
    """connect() whose keys are all rejected: the stall hits the wait for the CNXN after the public key was offered."""
    d = S.gen_device(g)
    d['latency'] = {'mode': 'zero'}
    d.pop('stray', None)
    nk = g.int(1, 3)
    keys = [[i, g.pick(['pythonrsa', 'cryptography'])] for i in range(nk)]
    d['auth'] = [{'accept_key': None, 'pubkey': 'silent'}]
    at = g.pick([0, 0.0, 0.5, 2.0, 5.0])
    rt = g.pick([0.5, 2.0])
    conn = {'op': 'connect', 'keys': keys, 'at': at, 'rt': rt, 'tt': g.pick([0.2, 1.0])}
    kind = g.pick(['silence', 'eof', 'foreign', 'unexpected', 'trickle'])
    unit = max(rt, at, 0.0)
    cfg = {'frag': g.pick(['whole', 'mixed']), 'call_cost': 1e-3, 'idle_cost': max(unit / 40.0, 2e-3), 'step_cap': 60000}
    scn = {'api': g.pick(['sync', 'async']), 'transport': 'mem', 'device': d, 'config': cfg, 'actors': [[conn]], 'object': {'banner': 'simhost', 'default_tt': None}}
    return {'seed': seed, 'scn': scn, 'stall': {'kind': kind, 'pick': 0, 'cmdword': g.pick([0x4e45504f, 0x434e5953, 0x48545541])}, 'auth_wait': True}


def generate(seed, tier):
    g = Gen(seed)
    if g.chance(0.08):
        return gen_auth_wait(seed, g)
    d = S.gen_device(g)
    d['latency'] = {'mode': 'zero'}
    d.pop('stray', None)
    d['maxdata'] = g.pick([4096, 65536])
    d['cut_plans'] = [{'policy': g.pick(['whole', 'record', 'random']), 'seed': g.int(0, 999)}]
    ops, _ = S.gen_ops(g, d, [g.pick(KINDS)], 1, 3000)
    op = ops[0]
    for k in ('tt', 'rt', 'to'):
        op.pop(k, None)
    tt, rt, to = g.pick(TT), g.pick(RT), g.pick(TO)
    if tt is not None:
        op['tt'] = tt
    if rt is not None:
        op['rt'] = rt
    if to is not None and op['op'] in ('shell', 'exec_out', 'root', 'reboot'):
        op['to'] = to
    if op['op'] == 'push':
        op['src'] = 'bytesio'
        op['content']['size'] = g.pick([10, 3000, 9000])
    if op['op'] == 'pull':
        op['dest'] = 'bytesio'
        op['cb'] = g.pick([None, 'count'])
    big_payload = g.chance(0.2) and op['op'] in ('shell', 'exec_out', 'streaming_shell', 'pull')
    if big_payload:
        # one large WRITE payload (>= 8 KiB): a stall inside it must still end at read_timeout_s
        d['maxdata'] = 65536
        d['cut_plans'] = [{'policy': 'whole', 'seed': 1}]
        size = g.pick([9000, 20000, 60000])
        if 'cmd' in op:
            d['cmds'][op['cmd']]['content']['size'] = size
            d['cmds'][op['cmd']]['cuts'] = None
        else:
            d['fs'][op['path']]['content']['size'] = size
            d['fs'][op['path']]['records'] = [65536]
    kind = g.pick(STALLS)
    if kind == 'endless' and 'to' not in op:
        kind = g.pick(['silence', 'foreign', 'trickle'])
    default_tt = g.pick([None, None, 1.0])
    T, R, _ = eff(op, default_tt)
    conn = {'op': 'connect', 'rt': g.pick([0.5, 2.0]), 'tt': g.pick([0.2, 1.0])}
    unit = max(R, T, 0.0)
    cfg = {'frag': g.pick(['whole', 'mixed']), 'call_cost': g.pick([1e-4, 1e-3]), 'idle_cost': max(unit / 40.0, 2e-3), 'step_cap': 60000}
    stall = {'kind': kind, 'pick': g.int(0, 1 << 30), 'cmdword': g.pick([0x4e45504f, 0x434e5953, 0x59414b4f])}
    if kind in ('eof', 'trickle') and (big_payload or g.chance(0.3)):
        stall['mid_packet'] = True      # the stall begins inside packet k (after some of its bytes), not between packets
    if big_payload:
        if kind not in ('eof', 'trickle'):
            stall['kind'] = g.pick(['eof', 'trickle'])
            stall['mid_packet'] = True
        stall['target_big'] = True      # k = the packet with the largest payload (found in the probe run)
        op['rt'] = g.pick([0.5, 3.0])
        op['tt'] = g.pick([0.3, 2.0])
        op.pop('to', None)
    scn = {'api': g.pick(['sync', 'async']), 'transport': 'mem', 'device': d, 'config': cfg, 'actors': [[conn, op]], 'object': {'banner': 'simhost', 'default_tt': default_tt}}
    if g.chance(0.15) and stall['kind'] in ('silence', 'eof', 'foreign', 'unexpected') and not stall.get('mid_packet') and all(op.get(k) is None or op[k] > 0 for k in ('tt', 'rt', 'to')):      # select() rejects negative timeouts: outside the TCP transport's contract
        # the same stalls seen through the real TCP transports (select/recv, asyncio streams): end-of-stream is a FIN there
        scn['transport'] = 'tcp'
        scn['tcp'] = {'sndbuf': 65536, 'drain': 100000, 'drain_every': 1e-5, 'high_water': 65536}
    return {'seed': seed, 'scn': scn, 'stall': stall}


def evaluate_auth_wait(case, tapes):
    out = blank()
    scn = case['scn']
    st = case['stall']
    op = scn['actors'][0][0]
    nk = len(op['keys'])
    s2 = copy.deepcopy(scn)
    at = op['at']
    interval = {'trickle': max(0.9 * max(at, 0.0), 0.05), 'foreign': 0.05, 'unexpected': 0.05}.get(st['kind'], 0.5)
    # the device has sent nk + 1 AUTH challenges when the host offers its public key; the stall begins there
    s2['device']['stall'] = {'after_pkts': nk + 1, 'kind': st['kind'], 'interval': interval, 'cmdword': st['cmdword']}
    c2 = dict(case)
    c2['scn_stall'] = s2
    run, tape = run_scn(c2, 'scn_stall', 0, tapes)
    absorb(out, run, tape)
    probs = []
    pr = out['probes']
    pr['c11_auth_wait'] = 1
    rec = run.results[0][0] if run.results[0] else None
    began = getattr(run.device, 'stall_began_at', None)
    if run.abort:
        probs.append(O.P('hang' if run.abort == 'hang' else 'no-termination', 'connect() waiting for the CNXN after offering the public key (auth_timeout_s=%r, read_timeout_s=%r) under stall %s: run aborted: %s %s' % (at, op['rt'], st['kind'], run.abort, getattr(run, 'abort_msg', ''))))
    elif rec is not None:
        if rec['ok']:
            probs.append(O.P('returned-wrong-data', 'connect() returned %r although the device never answered CNXN' % (rec['value'],)))
        elif not (set(O.TIMEOUT_EXCS) & set(exc_chain(rec)[:1])):
            probs.append(O.P('wrong-exception', 'connect() under stall %s after the public key raised %s (%s)' % (st['kind'], rec['exc'], rec.get('msg'))))
        else:
            pr['c11_timeout_raised'] = 1
        R = max(op['rt'], at)          # the read timeout follows the auth timeout for this wait
        T = max(at, 0.0)
        bound = 6.0 * (max(R, 0.0) + T) + 2.0 * interval + 400 * scn['config']['idle_cost'] + 0.5
        if began is not None and rec['t1'] - began > bound:
            probs.append(O.P('bound-exceeded', 'connect() (auth_timeout_s=%r, read_timeout_s=%r) under stall %s took %.3f virtual s after the public key was offered; bound %.3f' % (at, op['rt'], st['kind'], rec['t1'] - began, bound)))
    out['violations'] = [p for p in probs if p[0] in OWN]
    out['nontrivial'] = began is not None
    from ..tape import h64
    out['digest'] = h64('authwait', nk, st['kind'], at, op['rt'], op['tt'], scn['api'])
    out['sample'] = {'family': 'auth-wait', 'api': scn['api'], 'keys': nk, 'auth_timeout_s': at, 'read_timeout_s': op['rt'], 'stall': s2['device']['stall'],
                     'result': None if rec is None else ('ok' if rec['ok'] else rec['exc']), 'elapsed_after_pubkey': None if (rec is None or began is None) else round(rec['t1'] - began, 4)}
    return out


def evaluate(case, tapes=None):
    if case.get('auth_wait'):
        return evaluate_auth_wait(case, tapes)
    out = blank()
    scn = case['scn']
    st = case['stall']
    run0, tape0 = run_scn(case, 'scn', 0, tapes, seed_idx=0)
    absorb(out, run0, tape0)
    n = run0.device.emitted
    ops = scn['actors'][0]
    op = ops[1]
    default_tt = scn['object'].get('default_tt')
    T, R, to = eff(op, default_tt)
    k = st['pick'] % max(1, n + 1)
    if k > n:
        k = n
    if st.get('target_big'):
        pk = [e for e in run0.log.events if e[0] == 'pkt']
        if pk:
            k = max(pk, key=lambda e: e[5])[1] + 1
            out['probes']['c11_big_payload_stall'] = 1
    s2 = copy.deepcopy(scn)
    in_connect = k == 0
    cT, cR = (min(ops[0]['tt'], ops[0]['rt']), ops[0]['rt']) if in_connect else (T, R)
    Tp = max(cT, 0.0)
    interval = {'trickle': max(0.9 * Tp, 0.05), 'foreign': max(min(0.3 * Tp, 0.5), 0.02), 'unexpected': max(min(0.3 * Tp, 0.5), 0.02), 'endless': 0.3}.get(st['kind'], 0.5)
    s2['device']['stall'] = {'after_pkts': k, 'kind': st['kind'], 'interval': interval, 'cmdword': st['cmdword']}
    if st.get('mid_packet'):
        s2['device']['stall']['mid_packet'] = True
        out['probes']['c11_mid_packet'] = 1
    c2 = dict(case)
    c2['scn_stall'] = s2
    run, tape = run_scn(c2, 'scn_stall', 1, tapes, seed_idx=0)
    absorb(out, run, tape)
    probs = []
    dev = run.device
    began = getattr(dev, 'stall_began_at', None)
    pr = out['probes']
    recs = run.results[0]
    victim = None
    if began is not None:
        for i, rec in enumerate(recs):
            if rec['t0'] <= began <= rec.get('t1', 1e18) and rec['op'] in ('connect', op['op']):
                victim = (i, rec)
                break
    if run.abort:
        tag = 'hang' if run.abort == 'hang' else 'no-termination'
        probs.append(O.P(tag, '%s under stall %s after packet %d with (tt=%r, rt=%r, to=%r): run aborted: %s %s' % (op['op'], st['kind'], k, op.get('tt'), op.get('rt'), op.get('to'), run.abort, getattr(run, 'abort_msg', ''))))
    elif victim is not None:
        i, rec = victim
        vop = rec['spec']
        if i == 0:
            vT, vR, vto = min(vop['tt'], vop['rt']), vop['rt'], None
            pr['c11_in_connect'] = 1
        else:
            vT, vR, vto = T, R, to
            if vop['op'] == 'pull' and vop.get('cb'):
                # pull with a callback first calls stat() with the *default* timeouts (read 10 s, transport = object default)
                vR = max(vR, 10.0)
                vT = max(vT, min(default_tt, 10.0) if default_tt is not None else 10.0)
        if st['kind'] == 'trickle':
            pr['c11_trickle'] = 1
        if st['kind'] == 'eof':
            pr['c11_eof'] = 1
        cost = scn['config']['call_cost']
        bound = 6.0 * (max(vR, 0.0) + max(vT, 0.0)) + max(vto or 0.0, 0.0) + 2.0 * interval + 400 * max(cost, scn['config']['idle_cost']) + 0.5
        elapsed = rec['t1'] - began
        if rec['ok']:
            # it kept receiving what it waited for, each await point within its own deadline: no single wait may exceed the bound
            bound = bound * (n + 2)
        elif st['kind'] == 'trickle':
            # trickled packets that still met their per-read deadline are progress: one bound per await point passed
            bound = bound * (max(0, dev.emitted - k) + 1)
        if elapsed > bound:
            probs.append(O.P('bound-exceeded', 'op#%d %s under stall %s after packet %d took %.3f virtual s after the stall began; bound %.3f (T=%r R=%r timeout_s=%r)' % (i, rec['op'], st['kind'], k, elapsed, bound, vT, vR, vto)))
        if rec['ok']:
            # it got everything it needed before the stall: then the value must be the true one
            bad = [p for p in O.check_session(run, s2, relaxed_from=i + 1) if p[0] in ('wrong-result', 'missing-exception')]
            if st['kind'] == 'endless' and rec['op'] in ('shell', 'exec_out') and not bad:
                pass
            for p in bad:
                # endless: the device really wrote the extra payloads, so data beyond the scenario's is not fabricated
                if st['kind'] == 'endless' and rec['op'] in ('shell', 'exec_out', 'streaming_shell'):
                    continue
                probs.append(O.P('returned-wrong-data', p[1]))
        else:
            names = exc_chain(rec)
            okset = set(O.TIMEOUT_EXCS)
            if not (okset & set(names[:1] if rec['op'] != 'pull' else names)):
                probs.append(O.P('wrong-exception', 'op#%d %s under stall %s after packet %d raised %s (%s), expected AdbTimeoutError or the transport timeout error' % (i, rec['op'], st['kind'], k, rec['exc'], rec.get('msg'))))
            else:
                pr['c11_timeout_raised'] = 1
        # effective timeout ordering, observed on the transport calls of the stream operation
        if i == 1 and not (vop['op'] == 'pull' and vop.get('cb')) and scn.get('transport', 'mem') == 'mem':      # over TCP the log holds socket-level calls
            for c in run.link.calls:
                if c[0] >= rec['calls0'] and c[0] < rec.get('calls1', 1 << 60):
                    if c[4] is None or abs(c[4] - T) > 1e-12:
                        probs.append(O.P('timeout-order', 'transport call #%d of %s used timeout %r; effective transport timeout must be min(transport, read, total) = %r (tt=%r rt=%r to=%r)' % (c[0], rec['op'], c[4], T, op.get('tt', default_tt), op.get('rt'), op.get('to'))))
                        break
    out['violations'] = [p for p in probs if p[0] in OWN]
    out['nontrivial'] = victim is not None
    from ..tape import h64
    out['digest'] = h64(op['op'], k, st['kind'], op.get('tt'), op.get('rt'), op.get('to'), scn['api'], default_tt)
    out['sample'] = brief_scn(s2, run)
    out['sample']['stall'] = s2['device']['stall']
    out['sample']['timeouts'] = {'tt': op.get('tt'), 'rt': op.get('rt'), 'to': op.get('to'), 'default_tt': default_tt, 'effective_T_R': [T, R]}
    out['sample']['await_points_in_probe'] = n
    if victim is not None:
        out['sample']['elapsed_after_stall'] = round(victim[1]['t1'] - began, 4)
    return out
