"""C12 — any transport failure leaves the device object recoverable."""
import copy

from .. import oracles as O
from .. import scenario as S
from ..tape import Gen, h64
from .common import absorb, blank, brief_scn, run_scn

ID = 'C12'
LEVEL = 'fault_enumeration'
TIERS = {'quick': 9000, 'thorough': 300000}
RULE = ('scenario connect -> shell -> stat -> list -> pull -> push (+ variants with streaming_shell, exec_out and callbacks). A fault-free probe run counts '
        'its transport calls N; then a fault of kind {timeout, reset (persistent), EOF (persistent), single empty read, write timeout, broken pipe, write that was delivered but reported as timed out (asyncio semantics)} is '
        'injected at call index k (in a fifth of the cases the transport\'s close() called by the recovery fails too). Two fixed small scenarios are enumerated for every k < N and every kind (sync and async; thorough: four scenarios); the remaining runs sample '
        '(scenario, k, kind) and pairs of faults by seed. After the first failing operation: lock states are read, close(), connect() to a fresh healthy '
        'device session, and the whole scenario again, compared with ground truth. non-trivial / distinct = distinct (scenario, call index, kind, '
        'operation in progress) in which the fault actually fired')
ASSUMPTIONS = ['after a surfaced transport error only recovery is required, not continued use of the broken session',
               'a transport failure closes nothing by itself: the harness calls close() and connect() as a user would']
EXPECT_PROBES = {'all': ['fault_timeout', 'fault_reset', 'fault_eof', 'fault_empty', 'fault_wtimeout', 'fault_epipe', 'fault_wdelivered', 'short_writes', 'c12_fault_in_connect', 'c12_fault_in_push', 'c12_op_survived_fault', 'c12_close_failed', 'stale_cnxn_mid_session']}
OWN = ('wrong-result', 'push-missing', 'push-incomplete', 'lock-held', 'recovery-failed', 'recovery-wrong-result', 'hang', 'no-termination', 'push-content', 'stale-state')
KINDS = ['timeout', 'reset', 'eof', 'empty', 'wtimeout', 'epipe', 'wdelivered']
KMAX = 120


def fixed(idx):
    """Small fixed scenarios whose every (call index, kind) is enumerated."""
    api = 'sync' if idx % 2 == 0 else 'async'
    v = idx // 2
    d = {'maxdata': 4096, 'close_mode': 'strict', 'clse_zero': bool(v % 2), 'latency': {'mode': 'zero'}, 'rid_style': 'wide',
         'cmds': {'id': {'content': {'seed': 1, 'size': 40, 'alpha': 'ascii'}, 'cuts': [10, 20]}},
         'fs': {'/sdcard/f': {'mode': 0o100644, 'mtime': 1500000000, 'content': {'seed': 2, 'size': 300, 'alpha': 'bin'}, 'records': [200]}},
         'dirs': {'/sdcard': [[b'f'.hex(), 0o100644, 300, 1500000000], [b'g h'.hex(), 0o40755, 0, 7]]},
         'cut_plans': [{'policy': 'record' if v % 2 == 0 else 'whole', 'seed': 1}]}
    ops = [{'op': 'shell', 'cmd': 'id', 'decode': False}, {'op': 'stat', 'path': '/sdcard/f'}, {'op': 'list', 'path': '/sdcard'},
           {'op': 'pull', 'path': '/sdcard/f', 'dest': 'bytesio'}, {'op': 'push', 'src': 'bytesio', 'content': {'seed': 3, 'size': 2500 if v == 0 else 100, 'alpha': 'bin'}, 'path': '/data/local/tmp/p', 'mtime': 5}]
    if v >= 1:
        ops[0] = {'op': 'streaming_shell', 'cmd': 'id', 'decode': True}
        ops[3]['cb'] = 'count'
    for op in ops:
        op['rt'] = 2.0
        op['tt'] = 1.0
    scn = {'api': api, 'transport': 'mem', 'device': d, 'config': {'frag': 'whole', 'call_cost': 1e-4, 'idle_cost': 0.05},
           'actors': [[{'op': 'connect', 'rt': 2.0, 'tt': 1.0}] + ops], 'object': {'banner': 'simhost'}}
    return scn


def nfixed(tier):
    return 4 if tier == 'quick' else 8


def case_at(i, seed, tier):
    nf = nfixed(tier)
    E = nf * len(KINDS) * KMAX
    if i < E:
        sidx = i // (len(KINDS) * KMAX)
        r = i % (len(KINDS) * KMAX)
        return {'seed': seed, 'scn': fixed(sidx), 'faults': [{'k': r // len(KINDS), 'kind': KINDS[r % len(KINDS)]}], 'enumerated': True, 'fixed': sidx, 'close_fault': (r // len(KINDS)) % 5 == 0}
    return generate(seed, tier)


def generate(seed, tier):
    g = Gen(seed)
    d = S.gen_device(g)
    d['latency'] = g.pick([{'mode': 'zero'}, {'mode': 'small', 'max': 0.01}])
    d.pop('stray', None)
    ops, total = S.gen_ops(g, d, ['shell', 'exec_out', 'streaming_shell', 'stat', 'list', 'pull', 'push', 'root'], g.int(2, 5), 4000)
    for op in ops:
        op['rt'] = 2.0
        op['tt'] = g.pick([1.0, 2.0])
        if op['op'] == 'push':
            op['src'] = g.pick(['bytesio', 'file', 'dir'])
            if op['src'] == 'dir':
                # a directory of 2-4 files: a fault part-way must not end in a normal return with files missing
                op.pop('content', None)
                op['files'] = [{'name': 'f%d' % j, 'content': {'seed': g.int(0, 999), 'size': g.int(0, 600), 'alpha': 'bin'}} for j in range(g.int(2, 4))]
                d['cmds']['mkdir ' + op['path']] = {'content': {'size': 0}, 'cuts': []}
    for plan in d['cut_plans']:
        if plan['policy'] in ('one', 'tiny'):
            plan['policy'] = 'random'
    cfg = {'frag': g.pick(['whole', 'mixed', 'boundary']), 'call_cost': 1e-4, 'idle_cost': 0.05}
    if g.chance(0.2):
        cfg['short'] = 'pos'      # the transport also writes short, so a fault can land between the pieces of one message
    scn = {'api': g.pick(['sync', 'async']), 'transport': 'mem', 'device': d, 'config': cfg, 'actors': [[{'op': 'connect', 'rt': 2.0, 'tt': 1.0}] + ops], 'object': {'banner': 'simhost'}}
    faults = [{'pick': g.int(0, 1 << 30), 'kind': g.pick(KINDS)}]
    if g.chance(0.25):
        faults.append({'pick': g.int(0, 1 << 30), 'kind': g.pick(KINDS)})
    return {'seed': seed, 'scn': scn, 'faults': faults, 'close_fault': g.chance(0.2), 'stale_cnxn': g.int(0, 5) if g.chance(0.2) else None}


class _View(object):
    def __init__(self, run, recs):
        self.results = [recs]
        self.device = run.device
        self.link = run.link
        self.clock = run.clock


def evaluate(case, tapes=None):
    out = blank()
    scn = case['scn']
    run0, tape0 = run_scn(case, 'scn', 0, tapes, seed_idx=0)
    absorb(out, run0, tape0)
    n = run0.link.ncalls
    base = O.check_session(run0, scn)
    if base or run0.abort:
        out['probes']['base_run_failed'] = 1
        # the fault-free scenario itself misbehaves: that is another property's finding, not a recovery question
        out['notes'] = base
        out['digest'] = run0.digest()
        out['sample'] = brief_scn(scn, run0)
        return out
    s2 = copy.deepcopy(scn)
    fl = []
    for f in case['faults']:
        k = f['k'] if 'k' in f else f['pick'] % max(1, n)
        if k >= n:
            continue
        fl.append({'at': k, 'kind': f['kind'], 'persistent': f['kind'] in ('reset', 'eof')})
    if not fl:
        out['digest'] = h64('nofault', case.get('fixed'), case['faults'])
        out['sample'] = {'note': 'fault index beyond the scenario\'s %d transport calls' % n}
        return out
    s2['config']['faults'] = fl
    if case.get('stale_cnxn') is not None:
        # the link keeps what the device had queued (USB does): the answer to the broken session's CNXN turns up in the middle of the new one
        s2['device']['stale_cnxn'] = {'session_min': 2, 'after': case['stale_cnxn']}
    s2['config']['stop_on_error'] = True
    s2['config']['heal_on_reconnect'] = True
    if case.get('close_fault'):
        s2['config']['close_faults'] = [2]     # the explicit close() of the recovery fails inside the transport
    ops = s2['actors'][0]
    s2['post'] = [{'op': 'locks'}, {'op': 'close'}, {'op': 'locks'}] + copy.deepcopy(ops)
    c2 = dict(case)
    c2['scn_fault'] = s2
    run, tape = run_scn(c2, 'scn_fault', 1, tapes, seed_idx=0)
    absorb(out, run, tape)
    probs = []
    pr = out['probes']
    recs = run.results[0]
    fired = run.link.faults_fired
    if run.abort:
        probs.append(O.P('hang' if run.abort == 'hang' else 'no-termination', 'fault %r: run aborted: %s %s' % (fl, run.abort, getattr(run, 'abort_msg', ''))))
    victim = None
    if fired:
        idx0 = fired[0][0]
        for i, rec in enumerate(recs):
            if rec['calls0'] <= idx0 < rec.get('calls1', 1 << 60):
                victim = i
                break
    if fired and not run.abort:
        # phase 1: up to and including the faulted op; it may raise anything or return the truth
        vi = victim if victim is not None else len(recs)
        p1 = O.check_session(run, s2, relaxed_from=vi)
        probs += [p for p in p1 if p[0] in ('wrong-result', 'push-content', 'push-missing', 'push-incomplete')]
        if victim is not None:
            vrec = recs[victim]
            if vrec['ok']:
                pr['c12_op_survived_fault'] = 1
            if vrec['op'] == 'connect':
                pr['c12_fault_in_connect'] = 1
            if vrec['op'] == 'push':
                pr['c12_fault_in_push'] = 1
        # phase 2: locks, close, reconnect, replay
        post = getattr(run, 'post', [])
        if len(post) < len(s2['post']):
            probs.append(O.P('recovery-failed', 'recovery sequence stopped after %d of %d steps' % (len(post), len(s2['post']))))
        view = _View(run, post)
        m = O.SessionModel(s2)
        p2 = O.check_session(view, s2, model=m)
        if case.get('close_fault'):
            p2 = [p for p in p2 if not (p[0] == 'unexpected-exception' and ' close raised OSError' in p[1])]
            pr['c12_close_failed'] = 1
        for p in p2:
            if p[0] == 'lock-held':
                probs.append(p)
            elif p[0] in ('wrong-result', 'push-content'):
                probs.append(O.P('recovery-wrong-result', 'after close()+connect(): ' + p[1]))
            else:
                probs.append(O.P('recovery-failed', 'after close()+connect(): %s: %s' % p))
        for i, r in enumerate(post):
            if r['op'] in ('close',) and not r['ok'] and not (case.get('close_fault') and r['exc'] == 'OSError'):
                probs.append(O.P('recovery-failed', 'close() raised %s: %s' % (r['exc'], r.get('msg'))))
    out['violations'] = [p for p in probs if p[0] in OWN]
    out['nontrivial'] = bool(fired)
    vop = recs[victim]['op'] if victim is not None else None
    out['digest'] = h64(case.get('fixed', case['seed']), [(f['at'], f['kind']) for f in fl], vop, scn['api'])
    out['sample'] = brief_scn(s2, run)
    out['sample']['faults'] = fl
    out['sample']['fired'] = [list(x) for x in fired]
    out['sample']['probe_calls'] = n
    out['sample']['recovery'] = [(r['op'], 'ok' if r['ok'] else r['exc']) for r in getattr(run, 'post', [])]
    return out
