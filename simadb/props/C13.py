"""C13 — nothing is sent unless connected; availability tracks the connection truthfully."""
from .. import oracles as O
from .. import scenario as S
from ..tape import Gen
from .common import absorb, blank, brief_scn, run_scn, termination

ID = 'C13'
LEVEL = 'exploration'
TIERS = {'quick': 12000, 'thorough': 600000}
RULE = ('seeded sequences (length <= 6) over {connect-ok, connect-fail(transport refused | transport timeout | CNXN never answered | AUTH without keys | '
        'non-token challenge), close, shell, exec_out, streaming_shell, root, reboot, list, stat, pull(path|BytesIO), push(path|BytesIO|directory), streaming_shell generators created in one state and iterated in another, or read half-way and let go of (close() / last reference dropped) after the connection went away; close() calls whose transport close raises, devices announcing maxdata < 4096, commands whose OPEN the device refuses} with empty and '
        'non-empty device paths, sync and async, against a two-state reference model of `available`; in the not-connected state every operation must raise '
        'AdbConnectionError (empty path: DevicePathInvalidError, in either state), the transport write log must not grow by one byte, no transport call may be '
        'made and the pull destination must not exist afterwards. non-trivial = the sequence contains a failed connect followed by an operation; '
        'distinct = event-log digests')
ASSUMPTIONS = ['the <=5-step space is sampled by seed, not enumerated']
EXPECT_PROBES = {'all': ['c13_failed_connect_then_op', 'c13_op_after_close', 'c13_empty_path', 'c13_reconnect_ok', 'c13_deferred_generator', 'c13_half_read_generator_dropped_unconnected', 'c13_transport_close_raised', 'open_refused', 'c13_small_maxdata', 'c13_available_seen_during_connect', 'c13_coroutine_awaited_later']}
OPS = ['shell', 'exec_out', 'streaming_shell', 'streaming_shell', 'root', 'reboot', 'list', 'stat', 'pull', 'push']
OWN = ('wrong-result', 'unexpected-exception', 'timeout-instead-of-result', 'missing-exception', 'wrong-exception', 'hang', 'no-termination',
       'bytes-written-unconnected', 'transport-call-unconnected', 'file-created-unconnected', 'available-wrong', 'push-content', 'push-missing', 'push-incomplete')
FAILS = ['refused', 'timeout', 'silent', 'noauthkeys', 'badchallenge']


def generate(seed, tier):
    g = Gen(seed)
    d = S.gen_device(g)
    d['latency'] = {'mode': 'zero'}
    d.pop('stray', None)
    n = g.int(1, 6)
    ops = []
    plan = []
    auth = []
    silent = []
    sess = 0
    for i in range(n):
        c = g.int(0, 9)
        if c <= 2:
            kind = 'ok' if g.chance(0.45) else g.pick(FAILS + ['okauth'])
            op = {'op': 'connect', 'expect_connect': kind, 'rt': 0.5, 'tt': 0.2, 'at': 0.3}
            if kind in ('refused', 'timeout'):
                plan.append(kind)
            else:
                plan.append(None)
                if kind == 'silent':
                    silent.append(sess)
                    auth.append(None)
                elif kind == 'noauthkeys':
                    auth.append({'accept_key': None, 'pubkey': 'silent'})
                elif kind == 'badchallenge':
                    auth.append({'accept_key': None, 'pubkey': 'silent', 'bad_challenge_at': 0})
                    op['keys'] = [[0, 'pythonrsa']]
                elif kind == 'okauth':
                    # the key is unknown to the device, the user accepts the public key; the auth callback looks at `available` meanwhile
                    auth.append({'accept_key': None, 'pubkey': 'accept', 'think_s': 0.0})
                    op['keys'] = [[0, 'pythonrsa']]
                    op['auth_cb'] = 'ok'
                else:
                    auth.append(None)
                sess += 1
            ops.append(op)
        elif c == 3:
            ops.append({'op': 'close', 'fail': True} if g.chance(0.25) else {'op': 'close'})
        else:
            k = g.pick(OPS)
            if k in ('shell', 'exec_out', 'streaming_shell'):
                name = S.add_cmd(g, d, 200)
                op = {'op': k, 'cmd': name, 'decode': g.chance(0.5)}
            elif k in ('root', 'reboot'):
                op = {'op': k}
            elif k == 'list':
                op = {'op': 'list', 'path': S.add_dir(g, d, 4)}
            elif k == 'stat':
                op = {'op': 'stat', 'path': S.add_file(g, d, 50)}
            elif k == 'pull':
                op = {'op': 'pull', 'path': S.add_file(g, d, 500), 'dest': g.pick(['file', 'file', 'bytesio'])}
            else:
                op = {'op': 'push', 'src': g.pick(['bytesio', 'file', 'dir']), 'content': {'seed': g.int(0, 999), 'size': g.int(0, 3000), 'alpha': 'bin'}, 'path': '/data/t%d' % i, 'mtime': 9}
                if op['src'] == 'dir':
                    del op['content']
                    op['files'] = [{'name': 'f%d' % j, 'content': {'seed': g.int(0, 999), 'size': g.int(0, 300), 'alpha': 'bin'}} for j in range(g.int(0, 2))]
                    d['cmds']['mkdir ' + op['path']] = {'content': {'size': 0}, 'cuts': []}
                    d['cmds']['mkdir '] = {'content': {'size': 0}, 'cuts': []}
            if 'path' in op and g.chance(0.15):
                op['path'] = ''
                if op['op'] == 'pull' and op.get('dest') == 'file':
                    op['local_name'] = 'newdir%d/sub/pulled.bin' % i      # the destination's directory does not exist (and must not afterwards)
            op['rt'] = 2.0
            if op['op'] in ('shell', 'exec_out', 'root', 'reboot', 'stat', 'list') and op.get('path', 'x') and g.chance(0.15):
                # the operation's coroutine is created in one state of the connection and awaited in another (asyncio.create_task,
                # gather, or simply `c = dev.shell(..)` ... `await c`): what counts is the state when it runs
                ops.append({'op': 'coro_create', 'inner': op})
                c3 = g.int(0, 3)
                if c3 <= 1:
                    ops.append({'op': 'close'})
                elif c3 == 2:
                    ops.append({'op': 'connect', 'expect_connect': 'refused', 'rt': 0.5, 'tt': 0.2, 'at': 0.3})
                    plan.append('refused')
                ops.append({'op': 'coro_await', 'rt': 2.0})
                continue
            if op['op'] == 'streaming_shell' and g.chance(0.3):
                # the generator is read half-way, the connection goes away, and then the caller lets go of the generator
                d['cmds'][op['cmd']]['content']['size'] = max(d['cmds'][op['cmd']]['content'].get('size', 0), g.int(20, 400))
                ops.append({'op': 'ss_create', 'cmd': op['cmd'], 'decode': op['decode'], 'rt': 2.0})
                ops.append({'op': 'ss_next', 'n': g.int(1, 2), 'rt': 2.0})
                c2 = g.int(0, 3)
                if c2 <= 1:
                    ops.append({'op': 'close', 'fail': True} if g.chance(0.2) else {'op': 'close'})
                elif c2 == 2:
                    ops.append({'op': 'connect', 'expect_connect': 'refused', 'rt': 0.5, 'tt': 0.2, 'at': 0.3})
                    plan.append('refused')
                ops.append({'op': 'ss_drop', 'how': g.pick(['close', 'del'])})
                continue
            if op['op'] == 'streaming_shell' and g.chance(0.5):
                # the generator is created now and iterated later: the connection may change in between
                ops.append({'op': 'ss_create', 'cmd': op['cmd'], 'decode': op['decode'], 'rt': 2.0})
                if g.chance(0.6):
                    ops.append({'op': 'close'} if g.chance(0.6) else {'op': 'connect', 'expect_connect': 'refused', 'rt': 0.5, 'tt': 0.2, 'at': 0.3})
                    if ops[-1]['op'] == 'connect':
                        plan.append('refused')
                op = {'op': 'ss_consume', 'rt': 2.0}
            ops.append(op)
    if g.chance(0.15):
        d['maxdata'] = g.pick([256, 1024, 4095, 2048])      # a device announcing less than the legacy 4 KiB: accepted like any other value
    if g.chance(0.25):
        # the device refuses exec: (CLSE(0, id) instead of OKAY): that command times out, the connection -- and `available` -- stay as they are
        d['refuse'] = ['exec:']
        for op in ops:
            op = op.get('inner', op)
            if op['op'] == 'exec_out':
                op.update({'rt': 0.5, 'tt': 0.3, 'expect_timeout': True})
    d['auth'] = auth if any(a for a in auth) else None
    if d['auth'] is None:
        d.pop('auth')
    d['silent_sessions'] = silent
    d['cmds'].setdefault('__root__', {'content': {'size': 0}, 'cuts': None})
    if g.chance(0.15):
        # the state the device names in its CNXN payload is its own business: a completed handshake is a connection
        d['banner_hex'] = g.pick([b'sideload::ro.product.name=x', b'rescue::', b'recovery::x', b'offline::', b'\x00', b'device']).hex()
    if g.chance(0.4):
        # what adbd says when asked for root (whatever it says, root() is an ordinary operation: the connection state is the caller's business)
        txt = g.pick([b'restarting adbd as root\n', b'restarting adbd as root\n', b'adbd is already running as root\n', b'adbd cannot run as root in production builds\n'])
        d['cmds']['__root__'] = {'content': {'literal_hex': txt.hex(), 'size': len(txt)}, 'cuts': None}
    cfg = {'frag': g.pick(['whole', 'mixed']), 'call_cost': 1e-5, 'connect_plan': plan, 'idle_cost': 0.01}
    scn = {'api': g.pick(['sync', 'async']), 'transport': 'mem', 'device': d, 'config': cfg, 'actors': [ops], 'object': {'banner': 'simhost'}}
    return {'seed': seed, 'scn': scn}


def evaluate(case, tapes=None):
    out = blank()
    scn = case['scn']
    run, tape = run_scn(case, 'scn', 0, tapes)
    absorb(out, run, tape)
    probs = O.check_session(run, scn) + termination(run)
    connected = False
    failed_then_op = False
    last_connect_failed = False
    pr = out['probes']
    for i, rec in enumerate(run.results[0]):
        op = rec['spec']
        k = op['op']
        if rec.get('exc') in ('SimAbort', 'SimHang'):
            break
        if k == 'close' and op.get('fail'):
            pr['c13_transport_close_raised'] = 1
        if k == 'connect' and rec['ok'] and scn['device']['maxdata'] < 4096:
            pr['c13_small_maxdata'] = 1
        if k == 'connect':
            connected = op.get('expect_connect') in ('ok', 'okauth')
            last_connect_failed = not connected
            if rec.get('auth_cb_calls'):
                pr['c13_available_seen_during_connect'] = 1
                if rec.get('auth_cb_available'):
                    probs.append(O.P('available-wrong', 'op#%d connect: `available` read True from the auth callback, i.e. while the connect() attempt was still under way' % i))
            if connected and i > 0:
                pr['c13_reconnect_ok'] = 1
        elif k == 'close':
            connected = False
            last_connect_failed = False
        elif k in ('ss_create', 'coro_create'):
            pass
        else:
            if k == 'coro_await' and not connected:
                pr['c13_coroutine_awaited_later'] = 1
            if k == 'ss_consume':
                pr['c13_deferred_generator'] = 1
            if k == 'ss_drop' and not connected and i >= 2 and run.results[0][i - 2]['op'] == 'ss_next' and run.results[0][i - 2]['ok'] and run.results[0][i - 2]['value']:
                pr['c13_half_read_generator_dropped_unconnected'] = 1
            if not connected:
                if last_connect_failed:
                    failed_then_op = True
                else:
                    pr['c13_op_after_close'] = 1
                if rec.get('w1') != rec.get('w0'):
                    probs.append(O.P('bytes-written-unconnected', 'op#%d %s wrote %d bytes to the transport while not connected' % (i, k, rec['w1'] - rec['w0'])))
                if rec.get('calls1', rec['calls0']) != rec['calls0']:
                    probs.append(O.P('transport-call-unconnected', 'op#%d %s made %d transport calls while not connected' % (i, k, rec['calls1'] - rec['calls0'])))
                if k == 'pull':
                    if rec.get('dest_parent_created'):
                        probs.append(O.P('file-created-unconnected', 'op#%d pull created the directory of its local destination although nothing was pulled' % i))
                    if rec.get('dest_exists'):
                        probs.append(O.P('file-created-unconnected', 'op#%d pull created the local destination although nothing was pulled' % i))
                    if rec.get('dest_bytes'):
                        probs.append(O.P('file-created-unconnected', 'op#%d pull wrote %d bytes into the destination while not connected' % (i, len(rec['dest_bytes']))))
            if 'path' in op and not op['path']:
                pr['c13_empty_path'] = 1
        if k == 'pull' and op.get('path') == '' and rec.get('dest_parent_created'):
            probs.append(O.P('file-created-unconnected', 'op#%d pull with an empty device path created the directory of its local destination' % i))
        if rec.get('avail1') != connected:
            probs.append(O.P('available-wrong', 'after op#%d %s: available is %r, the connection model says %r' % (i, k, rec.get('avail1'), connected)))
    if failed_then_op:
        pr['c13_failed_connect_then_op'] = 1
    out['violations'] = [p for p in probs if p[0] in OWN]
    out['nontrivial'] = failed_then_op
    out['digest'] = run.digest()
    out['sample'] = brief_scn(scn, run)
    out['sample']['connects'] = [op.get('expect_connect') for op in scn['actors'][0] if op['op'] == 'connect']
    return out
