"""C06 — concurrent streams are isolated: no cross-talk, loss, duplication or deadlock."""
from .. import oracles as O
from .. import scenario as S
from ..tape import Gen, h64
from .common import absorb, blank, brief_scn, run_scn, termination

ID = 'C06'
LEVEL = 'exploration'
TIERS = {'quick': 6000, 'thorough': 400000}
RULE = ('one connected device, 2-3 concurrent actors (baton-scheduled real threads for AdbDevice with lock/IO yield points and line-level pre-emption in '
        'adb_device.py/hidden_helpers.py under coarse-random, PCT d<=3 and dense policies; asyncio tasks on a virtual-time loop for AdbDeviceAsync), each '
        'running 1-2 ops from {shell, exec_out, streaming_shell, stat, list, pull->BytesIO, push<-BytesIO}, plus the single-thread variant "partially consumed '
        'streaming_shell + another op"; the device adversary picks which ready stream\'s packet goes on the wire next; in a quarter of the runs the transport writes short (positive per-call capacity); a third of the task runs go through the real TcpTransportAsync on the simulated asyncio transport (small kernel buffer, unsent data queued by reference as asyncio does); timeouts >= 30 virtual s and latencies '
        '<< timeouts so a timeout can only come from loss or deadlock. non-trivial = >= 1 context switch inside an operation and >= 1 packet read by a '
        'non-owner (parked in the store); distinct = event-log digests')
ASSUMPTIONS = ['pre-emption is at line granularity inside adb_shell files only; asyncio interleavings are those FIFO scheduling allows',
               'K1 (known finding) is classified by its exact signature; any other deviation in the same run is a violation']
EXPECT_PROBES = {'all': ['c06_tcp_async', 'short_writes', 'foreign_packet_parked', 'store_delivered', 'store_clse_parked', 'clse_dropped_for_live_stream', 'lock_contended', 'adversary_choice', 'preempt_line']}
KINDS = ['shell', 'shell', 'exec_out', 'streaming_shell', 'stat', 'list', 'pull', 'push']
OWN = ('lost-clse', 'wrong-result', 'unexpected-exception', 'timeout-instead-of-result', 'missing-exception', 'wrong-exception', 'hang', 'no-termination', 'deadlock',
       'wire-format', 'protocol', 'store-model', 'push-content', 'push-missing', 'push-incomplete', 'push-duplicate', 'push-extra', 'lock-held')


def generate(seed, tier):
    g = Gen(seed)
    d = S.gen_device(g)
    d['latency'] = g.pick([{'mode': 'zero'}, {'mode': 'small', 'max': 0.001}, {'mode': 'small', 'max': 0.05}])
    d['clse_zero'] = g.chance(0.1)
    d.pop('stray', None)
    api = g.pick(['sync', 'sync', 'async'])
    single = g.chance(0.1)
    nact = 1 if single else g.pick([2, 2, 3])
    actors = []
    big = 3000
    for a in range(nact):
        ops, _ = S.gen_ops(g, d, KINDS, g.int(1, 2), big)
        for op in ops:
            op['rt'] = g.pick([30.0, 60.0])
            op['tt'] = g.pick([30.0, 45.0])
            if op['op'] == 'pull':
                op['dest'] = 'bytesio'
                op['cb'] = None
            if op['op'] == 'push':
                op['src'] = 'bytesio'
                op['path'] = '/data/local/tmp/a%d_%d' % (a, g.int(0, 999))
                op['content']['size'] = min(op['content']['size'], 20000)
        actors.append(ops)
    if g.chance(0.25):
        # the device rejects some of the pulls (FAIL, then CLSE right behind it): whoever reads those two packets off the wire, the
        # pull that owns them reports the device's reason
        for ops in actors:
            for op in ops:
                if op['op'] == 'pull' and op['path'] in d['fs'] and g.chance(0.7):
                    d.setdefault('recv_fail', {})[op['path']] = {'at': g.pick(['start', 'start', 'mid', 'end']), 'n': g.int(1, 2), 'reason': g.pick([b'Permission denied', b'No such file or directory', b'Is a directory']).hex(), 'then_close': g.chance(0.6)}
    for f in d['fs'].values():
        f['records'] = [max(r, 64) for r in f['records']]      # keep the number of packets (and traced steps) per run bounded
    if single:
        name = S.add_cmd(g, d, 200)
        d['cmds'][name]['cuts'] = [g.int(1, 20) for _ in range(g.int(2, 5))]
        d['cmds'][name]['content']['size'] = max(d['cmds'][name]['content']['size'], 60)
        from ..device import shell_payloads
        npay = max(1, len(shell_payloads(d, name)))
        # suspend the generator after any item, including the last one (then only the stream's CLSE is outstanding)
        actors = [[{'op': 'streaming_shell', 'cmd': name, 'decode': False, 'rt': 30.0, 'tt': 30.0, 'nested': actors[0], 'nested_after': g.pick([1, 2, npay, npay, g.int(1, npay)])}]]
    for plan in d['cut_plans']:
        if plan['policy'] in ('one', 'tiny'):
            plan['policy'] = g.pick(['record', 'straddle', 'random'])
    cfg = {'frag': g.pick(['whole', 'whole', 'boundary', 'mixed']), 'p_empty': 0.0, 'call_cost': g.pick([1e-6, 1e-5]), 'sched_step_cap': 1000000}
    pol = g.pick(['coarse', 'pct', 'pct', 'dense', 'dense'])
    cfg['sched'] = pol
    if pol == 'pct':
        cfg['pct_d'] = g.pick([1, 2, 3])
        cfg['pct_k'] = g.pick([300, 1500, 6000])
    elif pol == 'dense':
        cfg['p_line'] = g.pick([0.003, 0.02, 0.1])
    if g.chance(0.25):
        for ops in actors:
            for op in ops if not single else ops[0].get('nested', []):
                if op['op'] == 'push':
                    op['content']['size'] = min(op['content']['size'], 3000)
        cfg['sched_step_cap'] = 1500000
        cfg['short'] = 'pos'        # the transport accepts fewer bytes than offered (never nothing): messages are written in pieces
    if api == 'async':
        cfg['ayield'] = g.pick([0.0, 0.2, 0.6])
        cfg['task_order'] = g.pick([[0, 1, 2], [1, 0, 2], [2, 1, 0], [1, 2, 0]])
    scn = {'api': api, 'transport': 'mem', 'device': d, 'config': cfg, 'pre': [{'op': 'connect', 'rt': 30.0}], 'actors': actors, 'object': {'banner': 'simhost'}}
    if api == 'async' and not single and g.chance(0.3):
        # the tasks share a real TcpTransportAsync on a simulated asyncio transport: small kernel buffer, unsent data queued by reference
        scn['transport'] = 'tcp'
        scn['tcp'] = {'sndbuf': g.pick([256, 512, 4096]), 'drain': g.pick([64, 1000]), 'drain_every': g.pick([1e-4, 1e-3]), 'high_water': 65536}      # a slow reader: 64 KB/s .. 10 MB/s
        cfg.pop('short', None)
        if g.chance(0.6):
            # every task is in the middle of a multi-WRITE push at the same time
            d['maxdata'] = g.pick([4096, 8192])
            for a, ops in enumerate(actors):
                ops.insert(g.int(0, len(ops)), {'op': 'push', 'src': 'bytesio', 'content': {'seed': g.int(0, 1 << 30), 'size': g.int(9000, 20000), 'alpha': 'bin'},
                                                'path': '/data/local/tmp/t%d_%d' % (a, g.int(0, 999)), 'mtime': 6, 'rt': 30.0, 'tt': 30.0})
    return {'seed': seed, 'scn': scn}


_OPEN = []


def _open_ids():
    if not _OPEN:
        from ..batch import open_finding_ids
        _OPEN.append(open_finding_ids('C06'))
    return _OPEN[0]


def _owner_rec(run, sid):
    """(actor, rec) of the operation that opened device stream sid, or None."""
    s = run.device.all_streams[sid]
    for a, recs in enumerate(run.results):
        stack = list(recs)
        while stack:
            r = stack.pop()
            stack += r.get('nested', []) or []
            if r.get('pk0') is None:
                continue
            t1 = r.get('t1', run.clock.now)
            if r['t0'] <= s.open_t <= t1 and (s.opener == a):
                # the innermost matching record wins
                inner = [n for n in (r.get('nested') or []) if n['t0'] <= s.open_t <= n.get('t1', run.clock.now)]
                return a, (inner[0] if inner else r)
    return None


def classify_k1(run, failed):
    """failed: list of (actor, rec) whose outcome deviates. Returns True iff every deviation is
    exactly K1: the owner of a stream whose CLSE was dropped by the store, failing with a timeout
    error after the drop while waiting for that CLSE."""
    sh = run.store_shadow
    if sh is None or not getattr(sh, 'k1_drops', None):
        return False
    owners = {}
    for dr in sh.k1_drops:
        o = _owner_rec(run, dr['sid'])
        if o is not None:
            owners.setdefault(id(o[1]), []).append(dr)
    for (a, rec) in failed:
        drs = owners.get(id(rec))
        if not drs:
            return False
        if rec.get('exc') not in O.TIMEOUT_EXCS:
            return False
        if not any(dr['t'] >= rec['t0'] and dr['t'] <= rec.get('t1', dr['t']) for dr in drs):
            return False
    return True


def evaluate(case, tapes=None):
    out = blank()
    scn = case['scn']
    run, tape = run_scn(case, 'scn', 0, tapes)
    absorb(out, run, tape)
    probs = termination(run) + O.monitors(run, ('c02', 'c04', 'store'))
    pre_ok = all(r['ok'] for r in getattr(run, 'pre', []))
    if not pre_ok:
        probs.append(O.P('unexpected-exception', 'connect failed: %r' % [(r['exc'], r.get('msg')) for r in run.pre]))
    per_actor = []
    failed = []
    for a in range(len(scn['actors'])):
        m = O.SessionModel(scn)
        m.connected = True
        pa = O.check_session(run, scn, actor=a, model=m)
        # nested ops (single-thread variant) are checked as their own little session
        for rec in run.results[a]:
            if rec.get('nested'):
                class _R(object):
                    pass
                r2 = _R()
                r2.results = [rec['nested']]
                r2.device = run.device
                m2 = O.SessionModel(scn)
                m2.connected = True
                pa += O.check_session(r2, scn, actor=0, model=m2)
        per_actor.append(pa)
        if pa:
            for rec in run.results[a]:
                cands = [rec] + list(rec.get('nested') or [])
                for r in cands:
                    if not r['ok'] and r.get('exc') not in ('SimAbort', 'SimHang'):
                        failed.append((a, r))
    flat = [p for pa in per_actor for p in pa]
    locks = getattr(run, 'locks', {})
    if not run.abort and any(locks.values()):
        probs.append(O.P('lock-held', 'after all operations returned, locks are still held: %r' % locks))
    if flat and not probs and failed and len(failed) == len(flat) and classify_k1(run, failed):
        dr = run.store_shadow.k1_drops[0]
        msg = 'CLSE of live stream (local id %d) read by a non-owner was dropped by _AdbPacketStore.put; the owner timed out (%s)' % (dr['local'], failed[0][1]['exc'])
        if 'K1' in _open_ids():
            out['known'].append(('K1', msg))
        else:
            # K1 is recorded as fixed: its signature is an ordinary violation again
            probs.append(O.P('lost-clse', 'K1 signature: ' + msg))
    else:
        probs += flat
    out['violations'] = [p for p in probs if p[0] in OWN]
    sw = len(run.sched.switches) if run.sched is not None else 0
    parked = run.probes.get('foreign_packet_parked', 0)
    if scn['api'] == 'async':
        seq = [(c[1], c[2]) for c in run.link.calls]
        sw = sum(1 for i in range(1, len(seq)) if seq[i][0] != seq[i - 1][0])
        out['inter'].append(h64(seq))
    if scn.get('transport') == 'tcp':
        out['probes']['c06_tcp_async'] = 1
    out['nontrivial'] = sw >= 1 and parked >= 1
    if run.sched is not None:
        out['states'] = list(run.sched.states)
    out['digest'] = run.digest()
    out['sample'] = brief_scn(scn, run)
    out['sample']['sched'] = {k: scn['config'].get(k) for k in ('sched', 'pct_d', 'pct_k', 'p_line', 'ayield')}
    out['sample']['context_switches'] = sw
    return out
