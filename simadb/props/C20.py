"""C20 — USB transport honours the transport contract on a conforming libusb backend (fake usb1)."""
import copy

from .. import fakeusb1 as U
from .. import oracles as O
from .. import scenario as S
from ..device import expand
from ..tape import Gen, h64
from .common import absorb, blank, brief_scn, exc_chain, run_scn, termination

ID = 'C20'
LEVEL = 'fault_enumeration'
TIERS = {'quick': 5000, 'thorough': 200000}
RULE = ('the real UsbTransport / AdbDeviceUsb on a fake usb1 module wired to the device model: a bus of 1-3 devices (decoy interfaces: mass storage, '
        'a vendor interface with another protocol; endpoint order varied; kernel driver attached or not), find_adb by serial / port path / first; '
        '(a) whole sessions (connect, shell, list, stat, pull, push) compared with ground truth and with the in-memory transport, with a libusb error '
        '(IO, no-device, timeout, pipe, overflow, busy) injected at call index k of the backend call sequence (open, claim, bulkRead, bulkWrite, release, '
        'close; two fixed sessions enumerate every k), (b) transport scripts against a raw byte peer: reads/writes with timeouts {None, 0, fractional, '
        'large}, read sizes, short transfers, use after close, double close. Oracles: connect claims the interface (0xFF,0x42,1) of the selected device; '
        'every bulkWrite goes to its OUT endpoint, every bulkRead to its IN endpoint with length == requested; results <= requested, bytes in order; '
        'timeout == int(t*1000) ms, default*1000 when None; USBError => UsbReadFailedError / UsbWriteFailedError; after close() those errors. '
        'non-trivial / distinct = distinct (family, call index, error kind, operation) with an injected error or a script with a timeout and a short read')
ASSUMPTIONS = ['"conforming per its documentation" is the contract the fake usb1 implements (a stub, reported as one)',
               'find_all_adb_devices, _open, _find_and_open and _flush_buffers are outside the statement; errors injected into open/claim are noted, not asserted']
REAL_VS_STUB = {'real': ['adb_shell.transport.usb_transport.UsbTransport', 'adb_shell.adb_device.AdbDevice / AdbDeviceUsb'],
                'stub': ['usb1 / libusb (simadb.fakeusb1)', 'adbd or raw peer', 'clock']}
EXPECT_PROBES = {'all': ['c20_session', 'c20_script', 'c20_err_in_read', 'c20_err_in_write', 'c20_err_in_close', 'c20_use_after_close', 'c20_by_serial', 'c20_by_port', 'c20_timeout_none', 'c20_kernel_driver', 'c20_recovery', 'c20_unplugged']}
OWN = ('recovery-failed', 'usb-error-swallowed', 'wrong-interface', 'wrong-endpoint', 'wrong-length', 'read-too-long', 'bytes-differ', 'timeout-ms', 'bare-usb-error', 'crash', 'after-close', 'close-not-idempotent',
       'wrong-result', 'differs-from-memory', 'hang', 'no-termination', 'wrong-device', 'unexpected-exception', 'timeout-instead-of-result', 'write-lost', 'wire-format')
ERRS = ['io', 'nodevice', 'timeout', 'pipe', 'overflow', 'busy', 'notfound']
USB_EXC = ('UsbReadFailedError', 'UsbWriteFailedError')
KMAX = 90


def gen_bus(g):
    n = g.pick([1, 2, 3])
    target = g.int(0, n - 1)
    devs = []
    for i in range(n):
        devs.append({'serial': 'SER%d%s' % (i, g.pick(['', 'x', '-ü'])), 'bus': g.int(1, 3), 'ports': [g.int(1, 9) for _ in range(g.int(1, 3))] + [i],
                     'adb': (i == target) or g.chance(0.5), 'adb_if': g.pick([0, 1, 3]), 'in_ep': g.pick([0x81, 0x82, 0x85]), 'out_ep': g.pick([0x01, 0x02, 0x06]),
                     'decoy_first': g.chance(0.6), 'out_first': g.chance(0.5), 'kernel_driver': g.chance(0.3)})
    t = devs[target]
    by = g.pick(['serial', 'port_path', 'port_path_str', 'first'])
    if by == 'first':
        # "first" must be the target: make every device before it non-ADB
        for d in devs[:target]:
            d['adb'] = False
        find = {'by': 'first'}
    elif by == 'serial':
        find = {'by': 'serial', 'value': t['serial']}
    elif by == 'port_path':
        find = {'by': 'port_path', 'value': [t['bus']] + t['ports']}
    else:
        find = {'by': 'port_path', 'value': '-'.join(str(x) for x in [t['bus']] + t['ports'])}
    return {'devices': devs, 'target': target, 'find': find, 'default_tt': g.pick([None, None, 5.0, 0.75])}


def fixed_session(idx):
    d = {'maxdata': 4096, 'close_mode': 'strict', 'latency': {'mode': 'zero'}, 'cmds': {'id': {'content': {'seed': 1, 'size': 30, 'alpha': 'ascii'}, 'cuts': [10]}},
         'fs': {'/sdcard/f': {'mode': 0o100644, 'mtime': 5, 'content': {'seed': 2, 'size': 200, 'alpha': 'bin'}, 'records': [150]}}, 'dirs': {'/sdcard': [[b'f'.hex(), 0o100644, 200, 5]]}, 'cut_plans': [{'policy': 'whole'}]}
    ops = [{'op': 'connect', 'rt': 2.0}, {'op': 'shell', 'cmd': 'id', 'decode': False, 'rt': 2.0}, {'op': 'stat', 'path': '/sdcard/f', 'rt': 2.0}, {'op': 'pull', 'path': '/sdcard/f', 'dest': 'bytesio', 'rt': 2.0},
           {'op': 'push', 'src': 'bytesio', 'content': {'seed': 3, 'size': 2500 if idx == 0 else 50, 'alpha': 'bin'}, 'path': '/data/p', 'mtime': 5, 'rt': 2.0}, {'op': 'close'}]
    usb = {'devices': [{'serial': 'AAA', 'bus': 1, 'ports': [1], 'adb': False}, {'serial': 'BBB', 'bus': 1, 'ports': [2, 3], 'adb': True, 'kernel_driver': bool(idx)}], 'target': 1,
           'find': {'by': 'serial', 'value': 'BBB'}, 'default_tt': None}
    return {'api': 'sync', 'transport': 'usb', 'usb': usb, 'device': d, 'config': {'frag': 'whole', 'call_cost': 1e-4, 'idle_cost': 0.05, 'stop_on_error': True}, 'actors': [ops], 'object': {'banner': 'simhost'}}


def case_at(i, seed, tier):
    E = 2 * len(ERRS) * KMAX
    if i < E:
        sidx = i // (len(ERRS) * KMAX)
        r = i % (len(ERRS) * KMAX)
        scn = fixed_session(sidx)
        scn['usb']['faults'] = [{'at': r // len(ERRS), 'err': ERRS[r % len(ERRS)]}]
        return {'seed': seed, 'scn': scn, 'family': 'session', 'fixed': sidx}
    return generate(seed, tier)


def generate(seed, tier):
    g = Gen(seed)
    usb = gen_bus(g)
    if g.chance(0.4):
        # transport script
        chunks = [[g.pick([0.0, 0.001, 0.2, 1.5]), g.bytes(g.pick([1, 24, 64, 512, 3000])).hex()] for _ in range(g.int(1, 6))]
        total = sum(len(h) // 2 for _, h in chunks)
        ops = [{'op': 't_connect', 'timeout': g.pick([None, 1.0])}]
        want = total
        for _ in range(40):
            if want <= 0:
                break
            n = g.pick([1, 24, 512, 4096, 65536])
            ops.append({'op': 't_read', 'n': n, 'timeout': g.pick([None, 0.25, 0.5, 3.0, 60.0, 1.0015])})
            want -= min(n, want)
        for _ in range(6):
            ops.append({'op': 't_read', 'n': 65536, 'timeout': 2.5})
        for _ in range(g.int(0, 3)):
            ops.append({'op': 't_write', 'content': {'seed': g.int(0, 99), 'size': g.pick([1, 24, 512, 20000]), 'alpha': 'bin'}, 'timeout': g.pick([None, 0.5, 2.0, 0.0015, 0])})      # 0 = libusb's "no timeout", not "use the default"
        ops.append({'op': 't_close'})
        if g.chance(0.7):
            ops.append({'op': 't_close'})
        ops.append({'op': g.pick(['t_read', 't_write']), 'n': 10, 'timeout': 1.0, 'content': {'seed': 1, 'size': 10, 'alpha': 'bin'}})
        if g.chance(0.5):
            ops += [{'op': 't_connect', 'timeout': None}, {'op': 't_read', 'n': 100, 'timeout': 3.0}, {'op': 't_close'}]
        usb['short'] = g.chance(0.4)
        if g.chance(0.3):
            usb['named_faults'] = [{'on': g.pick(['release', 'close', 'bulkRead', 'bulkWrite']), 'nth': g.int(0, 2), 'err': g.pick(ERRS)}]
            if usb['named_faults'][0]['on'] in ('release', 'close'):
                usb['named_faults'][0]['nth'] = 0
        scn = {'api': 'sync', 'transport': 'usb', 'usb': usb, 'device': {'raw_peer': True, 'script': chunks}, 'actors': [ops],
               'config': {'frag': g.pick(['whole', 'mixed', 'uniform']), 'call_cost': 1e-5, 'shadow_store': False, 'short': 'cap' if usb['short'] else None, 'short_zero_raises': True}, 'object': {'banner': 'x'}}
        return {'seed': seed, 'scn': scn, 'family': 'script'}
    scn = S.session(g.int(0, 1 << 60), ['shell', 'exec_out', 'list', 'stat', 'pull', 'push'], nmax=4, big=8000, api='sync')
    scn['transport'] = 'usb'
    scn['usb'] = usb
    scn['usb']['via_class'] = g.chance(0.5)
    scn['object']['default_tt'] = usb['default_tt']
    scn['config']['stop_on_error'] = True
    scn['config']['idle_cost'] = 0.05
    for op in scn['actors'][0]:
        if op['op'] == 'push' and not op.get('mtime'):
            op['mtime'] = 9
    if g.chance(0.6):
        scn['usb']['faults'] = [{'pick': g.int(0, 1 << 30), 'err': g.pick(ERRS)}]
        if g.chance(0.25):
            # the cable is pulled: this and every later libusb call (the serial-number query included) fails with NO_DEVICE
            scn['usb']['faults'][0].update({'err': 'nodevice', 'unplug': True})
    return {'seed': seed, 'scn': scn, 'family': 'session'}


def usb_calls_ok(run, scn, probs, expect_timeouts=None):
    """Endpoint / interface / length / timeout-ms checks over the backend call record."""
    b = run.usb
    usb = scn['usb']
    tgt = usb['devices'][usb.get('target', 0)]
    want_if = tgt.get('adb_if', 1)
    claims = [c for c in U.CALLS if c[0] == 'claimInterface']
    opens = [c for c in U.CALLS if c[0] == 'open']
    for c in opens:
        if c[1] != tgt.get('serial'):
            probs.append(O.P('wrong-device', 'opened device %r, the requested one is %r (find=%r)' % (c[1], tgt.get('serial'), usb.get('find'))))
    for c in claims:
        if c[1] != want_if:
            probs.append(O.P('wrong-interface', 'claimed interface %d; the ADB interface (0xFF,0x42,1) of the device is %d' % (c[1], want_if)))
    last_connect_ok = False
    for c in U.CALLS:
        if c[0] == 'connect-result':
            last_connect_ok = bool(c[1])
        elif c[0] == 'open':
            last_connect_ok = True       # a connect() is under way: its own transfers (the handshake) count
        elif c[0] == 'unclaimed-transfer' and last_connect_ok:
            probs.append(O.P('wrong-interface', '%s on a handle whose interface had not been claimed (a failed claimInterface must end connect())' % c[1]))
            break
    for c in U.CALLS:
        if c[0] == 'bulkRead' and c[1] != b.in_ep:
            probs.append(O.P('wrong-endpoint', 'bulkRead on endpoint 0x%02x, the IN endpoint of the ADB interface is 0x%02x' % (c[1], b.in_ep)))
            break
        if c[0] == 'bulkWrite' and c[1] != b.out_ep:
            probs.append(O.P('wrong-endpoint', 'bulkWrite on endpoint 0x%02x, the OUT endpoint of the ADB interface is 0x%02x' % (c[1], b.out_ep)))
            break


def eval_session(case, tapes, out):
    scn = copy.deepcopy(case['scn'])
    pr = out['probes']
    pr['c20_session'] = 1
    faults = scn['usb'].get('faults') or []
    if faults and 'pick' in faults[0]:
        # probe run to learn the number of backend calls
        s0 = copy.deepcopy(scn)
        s0['usb']['faults'] = []
        c0 = dict(case)
        c0['scn0'] = s0
        run0, tape0 = run_scn(c0, 'scn0', 0, tapes, seed_idx=0)
        absorb(out, run0, tape0)
        n = run0.usb.ncall
        scn['usb']['faults'] = [dict(faults[0], at=faults[0]['pick'] % max(1, n))]
    if scn['usb'].get('faults') and scn['api'] == 'sync':
        # after the injected error: close(), connect() again (same object, same bus), one command
        name0 = next(iter(scn['device'].get('cmds', {})), None)
        scn['post'] = [{'op': 'usb_heal'}, {'op': 'close'}, {'op': 'connect', 'rt': 2.0}] + ([{'op': 'shell', 'cmd': name0, 'decode': False, 'rt': 2.0}] if name0 else [])
    c1 = dict(case)
    c1['scn1'] = scn
    run, tape = run_scn(c1, 'scn1', 1, tapes, seed_idx=0)
    absorb(out, run, tape)
    probs = termination(run)
    b = run.usb
    usb_calls_ok(run, scn, probs)
    find = scn['usb'].get('find', {})
    if find.get('by') == 'serial':
        pr['c20_by_serial'] = 1
    if find.get('by') == 'port_path':
        pr['c20_by_port'] = 1
    if scn['usb']['devices'][scn['usb'].get('target', 0)].get('kernel_driver'):
        pr['c20_kernel_driver'] = 1
    recs = run.results[0]
    fired = b.fired
    default_tt = scn.get('object', {}).get('default_tt')
    # timeout conversion: every transfer of op i must carry int(T_eff * 1000)
    for i, rec in enumerate(recs):
        op = rec['spec']
        if op['op'] in ('close', 'available'):
            continue
        rt = op.get('rt', 10.0)
        tt = op.get('tt', default_tt)
        T = rt if tt is None else min(tt, rt)
        want_ms = int(T * 1000)
        if op['op'] == 'pull' and op.get('cb'):
            continue
        for c in run.link.calls:
            if rec['calls0'] <= c[0] < rec.get('calls1', 1 << 60):
                got_ms = None if c[4] is None else int(round(c[4] * 1000))
                if got_ms != want_ms:
                    probs.append(O.P('timeout-ms', 'op#%d %s: libusb transfer timeout %r ms, expected int(%r s * 1000) = %d ms' % (i, op['op'], got_ms, T, want_ms)))
                    break
    if not fired:
        probs += O.check_session(run, scn) + O.monitors(run, ('c02',))
        mem = copy.deepcopy(scn)
        mem['transport'] = 'mem'
        mem.pop('usb', None)
        c2 = dict(case)
        c2['scn_mem'] = mem
        run2, tape2 = run_scn(c2, 'scn_mem', 2, tapes, seed_idx=0)
        absorb(out, run2, tape2)
        from .C03 import _res_key
        a = [_res_key(r) for r in recs]
        bb = [_res_key(r) for r in run2.results[0]]
        if a != bb:
            j = next((i for i in range(min(len(a), len(bb))) if a[i] != bb[i]), min(len(a), len(bb)))
            probs.append(O.P('differs-from-memory', 'session over USB differs from the in-memory transport at op#%d: %r vs %r' % (j, a[j:j + 1], bb[j:j + 1])))
        out['nontrivial'] = False
    else:
        (k, name, err) = fired[0]
        bad = [r for r in recs if not r['ok']]
        if any(f.get('unplug') for f in scn['usb'].get('faults') or []):
            pr['c20_unplugged'] = 1
        if name == 'bulkRead':
            pr['c20_err_in_read'] = 1
        elif name == 'bulkWrite':
            pr['c20_err_in_write'] = 1
        elif name in ('close', 'release'):
            pr['c20_err_in_close'] = 1
        if name in ('bulkRead', 'bulkWrite'):
            want = 'UsbReadFailedError' if name == 'bulkRead' else 'UsbWriteFailedError'
            if not bad:
                probs.append(O.P('usb-error-swallowed', 'libusb %s injected into %s #%d did not surface as %s: every call returned normally' % (err, name, k, want)))
            else:
                r = bad[0]
                chain = exc_chain(r)
                if want not in chain:
                    tag = 'bare-usb-error' if any(c.startswith('USBError') for c in chain) else 'crash'
                    probs.append(O.P(tag, 'libusb %s injected into %s #%d: %s raised %s (%s), expected %s' % (err, name, k, r['op'], r['exc'], r.get('msg'), want)))
        elif name in ('close', 'release'):
            for r in bad:
                probs.append(O.P('bare-usb-error' if r['exc'].startswith('USBError') else 'crash', 'libusb %s injected into %s: %s raised %s (%s); close() must swallow it' % (err, name, r['op'], r['exc'], r.get('msg'))))
        # open / claim: the connect() that met the error must not report success (which exception it raises is not asserted)
        else:
            if name == 'claim' and not bad:
                probs.append(O.P('usb-error-swallowed', 'libusb %s injected into claimInterface: every call, connect() included, returned normally' % err))
            for r in bad:
                if not (r['exc'].startswith('USBError') or r['exc'] in USB_EXC):
                    probs.append(O.P('crash', 'libusb %s injected into %s: %s raised %s (%s)' % (err, name, r['op'], r['exc'], r.get('msg'))))
        # recovery on the same object: close() and connect() must work again (the handle of the broken session must have been released)
        for r in (getattr(run, 'post', []) if name in ('bulkRead', 'bulkWrite', 'claim', 'open') else []):
            if not r['ok']:
                probs.append(O.P('recovery-failed', 'after libusb %s in %s: %s raised %s (%s)' % (err, name, r['op'], r['exc'], r.get('msg'))))
                break
        for r in getattr(run, 'post', []):
            if not r['ok'] and r['exc'] == 'ClosedHandleUse':
                probs.append(O.P('crash', 'after libusb %s in %s: %s used a libusb handle that had already been closed (%s)' % (err, name, r['op'], r.get('msg'))))
                break
        if getattr(run, 'post', None):
            pr['c20_recovery'] = 1
        # whatever happened before the failing op must be right
        vi = next((i for i, r in enumerate(recs) if not r['ok']), len(recs))
        probs += [p for p in O.check_session(run, scn, relaxed_from=vi) if p[0] == 'wrong-result']
        out['nontrivial'] = True
    vop = next((r['op'] for r in recs if not r['ok']), None)
    out['digest'] = h64('session', case.get('fixed', case['seed']), [(f[0], f[1], f[2]) for f in fired], vop)
    out['sample'] = brief_scn(scn, run)
    out['sample']['usb'] = {'find': scn['usb'].get('find'), 'faults': scn['usb'].get('faults'), 'fired': [list(f) for f in fired], 'backend_calls': [c[0] for c in U.CALLS[:10]]}
    return probs


def eval_script(case, tapes, out):
    scn = copy.deepcopy(case['scn'])
    case = dict(case)
    case['scn'] = scn
    pr = out['probes']
    pr['c20_script'] = 1
    if scn['usb'].get('named_faults'):
        pr['c20_err_in_close'] = 1
    run, tape = run_scn(case, 'scn', 0, tapes)
    absorb(out, run, tape)
    probs = termination(run)
    usb_calls_ok(run, scn, probs)
    peer = run.device
    recs = run.results[0]
    sess_bytes = bytes(b''.join(bytes.fromhex(h) for (_, h) in scn['device']['script']))
    default_tt = scn['usb'].get('default_tt')
    default_s = default_tt if default_tt is not None else 10
    sessions = []
    closed = True
    written = bytearray()
    closes = 0
    short = False
    tmo = False
    ti = 0
    transfers = run.usb.transfers
    for i, r in enumerate(recs):
        op = r['spec']
        k = op['op']
        if r.get('exc') in ('SimAbort', 'SimHang'):
            break
        if k == 't_connect':
            was_closed = closed
            closed = False
            closes = 0
            sessions.append(bytearray())
            close_failed = any(f[1] in ('release', 'close') for f in run.usb.fired)
            if not r['ok'] and (not was_closed or close_failed):
                # (a failed release leaves the old handle open: outside the statement, noted in DESIGN)
                # connecting a transport that is still connected: the interface is (rightly) busy; outside the statement
                break       # the state of the transport is undefined from here on: stop judging this script
            if not r['ok']:
                probs.append(O.P('unexpected-exception', 'op#%d connect raised %s: %s' % (i, r['exc'], r.get('msg'))))
        elif k == 't_close':
            closed = True
            closes += 1
            if not r['ok']:
                probs.append(O.P('close-not-idempotent', 'op#%d close() #%d raised %s: %s' % (i, closes, r['exc'], r.get('msg'))))
        elif k in ('t_read', 't_write'):
            want_exc = 'UsbReadFailedError' if k == 't_read' else 'UsbWriteFailedError'
            if closed:
                pr['c20_use_after_close'] = 1
                if r['ok'] or r['exc'] != want_exc:
                    probs.append(O.P('after-close', 'op#%d %s after close(): %s, expected %s' % (i, k, 'returned' if r['ok'] else '%s (%s)' % (r['exc'], r.get('msg')), want_exc)))
                continue
            # the libusb call made for this op
            t = op.get('timeout')
            if t is None:
                pr['c20_timeout_none'] = 1
            want_ms = int(t * 1000) if t is not None else int(default_s * 1000)
            calls = [c for c in run.link.calls if r['calls0'] <= c[0] < r.get('calls1', 1 << 60)]
            tr = [x for x in transfers if True]
            if r.get('skipped'):
                continue
            # find this op's transfer record by order
            mine = None
            while ti < len(transfers):
                cand = transfers[ti]
                ti += 1
                if cand[0] == ('r' if k == 't_read' else 'w'):
                    mine = cand
                    break
            if mine is not None:
                if isinstance(mine[4], str) and r['ok']:
                    probs.append(O.P('usb-error-swallowed', 'op#%d %s: the backend raised %s but the call returned %r' % (i, k, mine[4], (r['value'][:8] if isinstance(r['value'], (bytes, bytearray)) else r['value']))))
                if mine[3] != want_ms:
                    probs.append(O.P('timeout-ms', 'op#%d %s(timeout=%r): libusb timeout %r ms, expected %d ms (default %r s)' % (i, k, t, mine[3], want_ms, default_tt)))
                want_len = op['n'] if k == 't_read' else op['content']['size']
                if mine[2] != want_len:
                    probs.append(O.P('wrong-length', 'op#%d %s: libusb transfer length %d, requested %d' % (i, k, mine[2], want_len)))
            if k == 't_read':
                if r['ok']:
                    v = r['value']
                    if not isinstance(v, bytes):
                        probs.append(O.P('wrong-result', 'op#%d bulk_read returned %s, expected bytes' % (i, type(v).__name__)))
                        v = bytes(v)
                    if len(v) > op['n']:
                        probs.append(O.P('read-too-long', 'op#%d bulk_read(%d) returned %d bytes' % (i, op['n'], len(v))))
                    if len(v) < op['n']:
                        short = True
                    sessions[-1] += v
                elif r['exc'] == 'UsbReadFailedError':
                    tmo = True
                else:
                    probs.append(O.P('bare-usb-error' if r['exc'].startswith('USBError') else 'crash', 'op#%d bulk_read raised %s: %s' % (i, r['exc'], r.get('msg'))))
            else:
                data = expand(op['content'])
                if r['ok']:
                    n = r['value'] if isinstance(r['value'], int) else len(data)
                    written += data[:n]
                elif r['exc'] != 'UsbWriteFailedError':
                    probs.append(O.P('bare-usb-error' if r['exc'].startswith('USBError') else 'crash', 'op#%d bulk_write raised %s: %s' % (i, r['exc'], r.get('msg'))))
                else:
                    written = None
                    break
    if not run.abort:
        for si, got in enumerate(sessions):
            if si > 0 and any(f[1] in ('release', 'close') for f in run.usb.fired):
                continue
            if bytes(got) != sess_bytes[:len(got)]:
                probs.append(O.P('bytes-differ', 'connection #%d: the bytes read are not what the device wrote (first difference at %d)' % (si, O.first_diff(bytes(got), sess_bytes))))
        if written is not None:
            rec = bytes(peer.received)
            if rec != bytes(written):
                probs.append(O.P('write-lost', 'bulk_write reported %d bytes written; the device received %d (equal prefix: %r)' % (len(written), len(rec), rec == bytes(written)[:len(rec)])))
    out['nontrivial'] = short and tmo
    out['digest'] = run.digest()
    out['sample'] = {'family': 'script', 'find': scn['usb'].get('find'), 'default_tt': default_tt, 'peer_chunks': [(d, len(h) // 2) for d, h in scn['device']['script']],
                     'ops': [(r['op'], r['spec'].get('n'), r['spec'].get('timeout'), (len(r['value']) if isinstance(r['value'], (bytes, bytearray)) else r['value']) if r['ok'] else r['exc']) for r in recs[:14]],
                     'libusb_calls': [list(c) for c in U.CALLS[:8]]}
    return probs


def evaluate(case, tapes=None):
    out = blank()
    if case.get('family') == 'script':
        probs = eval_script(case, tapes, out)
    else:
        probs = eval_session(case, tapes, out)
    out['violations'] = [p for p in probs if p[0] in OWN]
    return out
