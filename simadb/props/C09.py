"""C09 — list and stat return exactly the device's directory entries and metadata."""
from .. import oracles as O
from .. import scenario as S
from ..tape import Gen
from .common import absorb, blank, brief_scn, run_scn, termination

ID = 'C09'
LEVEL = 'exploration'
TIERS = {'quick': 5000, 'thorough': 200000}
RULE = ('seeded list/stat calls: listings of 0..300 entries, names 1..255 arbitrary bytes (incl. trailing space/NUL/newline), mode/size/mtime over the '
        'whole 32-bit range biased to 0, 2^31, 2^32-1, DENT headers and names split across WRTEs by the cut policies, all read fragmentations, stat '
        'replies likewise (existing, missing and overridden paths); in 15% of the cases one payload is damaged on the wire or one read times out while the device stays healthy (the call may fail, never return a shortened listing). non-trivial = a DENT/STAT record was split across WRTEs; distinct = event-log digests')
ASSUMPTIONS = ['adbd answers STAT for a missing path with zeros and LIST of a missing directory with DONE only']
EXPECT_PROBES = {'all': ['sync_header_split_across_wrte', 'c09_big_listing', 'c09_high_bit_field', 'c09_fault_failed_list_or_stat', 'debug_logging_on']}
OWN = ('wrong-result', 'unexpected-exception', 'timeout-instead-of-result', 'missing-exception', 'wrong-exception', 'hang', 'no-termination', 'not-closed', 'unacked-write')


def generate(seed, tier):
    g = Gen(seed)
    d = S.gen_device(g)
    d['cut_plans'] = [{'policy': g.pick(['straddle', 'straddle', 'random', 'tiny', 'record', 'whole', 'one']), 'seed': g.int(0, 1 << 30)} for _ in range(g.int(1, 3))]
    ops = []
    total = 0
    for _ in range(g.int(1, 4)):
        if g.chance(0.5):
            p = S.add_dir(g, d, nmax=g.pick([5, 40, 300]))
            total += sum(20 + len(e[0]) // 2 for e in d['dirs'][p])
            ops.append(S.timeouts(g, {'op': 'list', 'path': p}))
        else:
            c = g.int(0, 3)
            if c == 0:
                p = '/missing/%d' % g.int(0, 9)
            elif c == 1:
                p = '/over/%d' % g.int(0, 9)
                d.setdefault('stat_override', {})[p] = [S.rand_u32(g), S.rand_u32(g), S.rand_u32(g)]
            else:
                p = S.add_file(g, d, 100)
            ops.append(S.timeouts(g, {'op': 'stat', 'path': p}))
    for plan in d['cut_plans']:
        if plan['policy'] == 'one' and total > 3000:
            plan['policy'] = 'straddle'
    cfg = S.gen_config(g, total)
    scn = {'api': g.pick(['sync', 'async']), 'transport': 'mem', 'device': d, 'config': cfg, 'actors': [[S.timeouts(g, {'op': 'connect'})] + ops], 'object': {'banner': 'simhost'}}
    if g.chance(0.08):
        d['wrte_zero'] = True       # legacy adbd: reply WRITEs carry remote id 0; they are acknowledged on the stream's real ids
    if g.chance(0.15):
        cfg['log_debug'] = True      # names are bytes: what the log level is must not matter
    if g.chance(0.15):
        # one thing goes wrong part-way (a payload damaged on the wire, or a single read that times out) while the device stays
        # healthy and answers the CLOSE: the call may fail, it must never hand back a shortened listing or a made-up triple
        if g.chance(0.5):
            d['corrupt'] = {'at': g.int(2, 30), 'kind': g.pick(['byte', 'bit']), 'off': g.int(0, 1 << 20), 'bitno': g.int(0, 7), 'delta': g.int(0, 253)}
        else:
            cfg['faults'] = [{'at': g.int(6, 120), 'kind': 'timeout'}]
        cfg['stop_on_error'] = True
    return {'seed': seed, 'scn': scn}


def evaluate(case, tapes=None):
    out = blank()
    scn = case['scn']
    run, tape = run_scn(case, 'scn', 0, tapes)
    absorb(out, run, tape)
    dev = run.device
    pr = out['probes']
    if run.link.faults_fired or run.probes.get('corrupt_payload'):
        pr['c09_fault_mid_session'] = 1
        if any(not r['ok'] and r['op'] in ('list', 'stat') for r in run.results[0]):
            pr['c09_fault_failed_list_or_stat'] = 1
        probs = [p for p in O.check_session(run, scn, relaxed_from=0) if p[0] == 'wrong-result'] + termination(run)
    else:
        probs = O.check_session(run, scn) + termination(run)
    for i, rec in enumerate(run.results[0]):
        if rec['op'] not in ('list', 'stat') or not rec['ok']:
            continue
        mine = [s for s in dev.all_streams if rec['pk0'] <= s.open_pk < rec['pk1']]
        for s in mine:
            if s.host_clse_count != 1:
                probs.append(O.P('not-closed', 'op#%d %s: stream %d saw %d host CLSE, expected exactly one' % (i, rec['op'], s.local, s.host_clse_count)))
            if s.read_unacked:
                probs.append(O.P('unacked-write', 'op#%d %s: %d device WRITE(s) never acknowledged' % (i, rec['op'], s.read_unacked)))
    for ents in scn['device']['dirs'].values():
        if len(ents) >= 100:
            pr['c09_big_listing'] = 1
        if any(e[1] >= 1 << 31 or e[2] >= 1 << 31 or e[3] >= 1 << 31 for e in ents):
            pr['c09_high_bit_field'] = 1
    out['violations'] = [p for p in probs if p[0] in OWN]
    out['nontrivial'] = run.probes.get('sync_header_split_across_wrte', 0) > 0
    out['digest'] = run.digest()
    out['sample'] = brief_scn(scn, run)
    out['sample']['dirs'] = {k: len(v) for k, v in scn['device']['dirs'].items()}
    out['sample']['cut_plans'] = [p['policy'] for p in scn['device']['cut_plans']]
    return out
