"""C01 — shell/exec output is exactly what the device wrote, for every chunking."""
from .. import oracles as O
from .. import scenario as S
from ..tape import Gen
from .common import absorb, blank, brief_scn, run_scn, termination

ID = 'C01'
LEVEL = 'exploration'
TIERS = {'quick': 12000, 'thorough': 600000}
RULE = ('seeded sessions of 1-6 ops from {shell, exec_out, root, streaming_shell} x decode, device output 0..3*maxdata bytes over '
        'utf8/invalid-utf8/binary alphabets cut into 0..n WRTE payloads (empty payloads and cuts inside multi-byte sequences included), '
        'every read fragmentation policy, strict/eager close, sync and async; in 12% of the sessions the link dies for good at one transport call (a cut-off command may raise, never return a part), in 10% one OPEN is answered only after the command has timed out (later commands must be unaffected), in 3% a device with a large maxdata writes 2-3 payloads of one size >= 64 KiB in a row, rarely an output above 4 MiB is decoded; non-trivial = some command had >= 2 payloads and >= 1 read was '
        'fragmented; distinct = distinct event-log digests')
ASSUMPTIONS = ['the device model emits only behaviour a conforming adbd can show (DESIGN 2.3)',
               'expected text is bytes.decode("utf8","backslashreplace") computed by the harness, not by adb_shell']
EXPECT_PROBES = {'all': ['frag_reads', 'hdr_split', 'payload_split', 'empty_payload_wrte', 'utf8_split_across_wrte', 'c01_link_died_mid_command', 'late_open_okay', 'c01_ghost_left_packets_parked', 'c01_stale_generator_resumed', 'c01_equal_large_payloads', 'c01_output_gt_4mib']}
KINDS = ['shell', 'shell', 'exec_out', 'streaming_shell', 'streaming_shell', 'root']
OWN = ('wrong-result', 'unexpected-exception', 'timeout-instead-of-result', 'missing-exception', 'wrong-exception', 'hang', 'no-termination', 'deadlock')


KINDS_BIG = ['shell', 'exec_out', 'streaming_shell']


def generate(seed, tier):
    big = 20000 if tier == 'quick' else 200000
    g = Gen(seed)
    scn = S.session(g.int(0, 1 << 60), KINDS, nmax=6, big=big)
    ops = scn['actors'][0]
    if g.chance(0.1):
        # output that begins with a byte-order mark (U+FEFF, EF BB BF): it is part of what the device wrote
        for c in scn['device']['cmds'].values():
            if c['content'].get('size', 0) >= 3 and g.chance(0.7):
                c['content']['prefix_hex'] = 'efbbbf'
    case = {'seed': seed, 'scn': scn}
    if g.chance(0.03):
        # a device with a large maxdata writes several large payloads of one and the same size in a row
        d = scn['device']
        d['maxdata'] = g.pick([262144, 1048576])
        chunk = g.pick([65536, 65537, 100000, 131072])
        k = g.int(2, 3)
        name = S.add_cmd(g, d, 100)
        d['cmds'][name]['content'] = {'seed': g.int(0, 1 << 30), 'size': chunk * k, 'alpha': g.pick(['bin', 'ids'])}
        d['cmds'][name]['cuts'] = [chunk] * k
        scn['config'] = {'frag': g.pick(['whole', 'boundary']), 'p_empty': 0.0, 'call_cost': 1e-6}
        scn['actors'][0] = [ops[0], {'op': g.pick(KINDS_BIG), 'cmd': name, 'decode': g.chance(0.3)}]
        case['big_equal_chunks'] = True
        return case
    if g.chance(0.004 if tier == 'quick' else 0.0005):
        # a very long output (more than 4 MiB of text) decoded as a whole
        d = scn['device']
        d['maxdata'] = 1048576
        name = S.add_cmd(g, d, 100)
        d['cmds'][name]['content'] = {'seed': g.int(0, 1 << 30), 'size': 4194304 + g.int(1, 200000), 'alpha': g.pick(['utf8', 'utf8', 'badutf8'])}
        d['cmds'][name]['cuts'] = None
        scn['config'] = {'frag': 'whole', 'p_empty': 0.0, 'call_cost': 1e-6}
        scn['actors'][0] = [ops[0], {'op': g.pick(['shell', 'exec_out']), 'cmd': name, 'decode': True}]
        case['huge_output'] = True
        return case
    if g.chance(0.06):
        # a streaming_shell generator is read part-way, the connection is closed and opened again, another command runs, and then
        # the old generator is resumed: it gets nothing (its stream is gone) and the new command gets exactly its own output
        name = S.add_cmd(g, scn['device'], 3000)
        scn['device']['cmds'][name]['cuts'] = [g.int(1, 20), g.int(1, 20), g.int(1, 20)]
        scn['device']['cmds'][name]['content']['size'] = max(scn['device']['cmds'][name]['content'].get('size', 0), 80)
        scn['device']['rid_style'] = 'seq'       # the device numbers its streams from the start again on the new connection
        name2 = S.add_cmd(g, scn['device'], 3000)
        scn['device']['cmds'][name2]['cuts'] = [g.int(1, 20), g.int(1, 20)]
        scn['device']['cmds'][name2]['content']['size'] = max(scn['device']['cmds'][name2]['content'].get('size', 0), 60)
        scn['actors'][0] = [ops[0], {'op': 'ss_create', 'cmd': name, 'decode': g.chance(0.5), 'rt': 1.0, 'tt': 0.5}, {'op': 'ss_next', 'n': 1, 'rt': 1.0},
                            {'op': 'close'}, dict(ops[0]),
                            {'op': 'streaming_shell', 'cmd': name2, 'decode': g.chance(0.5), 'rt': 5.0, 'tt': 5.0, 'nested_after': g.pick([1, 1, 2]),
                             'nested': [{'op': 'ss_consume', 'expect_stale': True, 'rt': 1.0}]}]
        return case
    cmds = [op['cmd'] for op in ops if 'cmd' in op]
    if cmds and g.chance(0.06):
        # another device object in the same process (its own device, numbering its streams the same way) has streams open and
        # packets parked while this one works: objects share nothing
        import copy
        scn['api'] = 'sync'
        scn['device']['rid_style'] = 'seq'
        gd = copy.deepcopy(scn['device'])
        spec = gd['cmds'][cmds[0]]
        if spec['content'].get('size', 0) < 40 or not spec.get('cuts'):
            spec['content']['size'] = max(spec['content'].get('size', 0), 40)
            spec['cuts'] = [7, 9, 11]
        gs = {'api': 'sync', 'transport': 'mem', 'device': gd, 'config': {'frag': 'whole', 'call_cost': 1e-5}, 'object': {'banner': 'ghost'},
              'actors': [[{'op': 'connect', 'rt': 5.0}, {'op': 'ss_create', 'cmd': cmds[0], 'decode': False, 'rt': 5.0}, {'op': 'ss_next', 'n': 1, 'rt': 5.0},
                          {'op': 'shell', 'cmd': cmds[min(1, len(cmds) - 1)], 'decode': False, 'rt': 5.0}]]}
        ops.insert(1, {'op': 'ghost', 'scn': gs, 'seed': g.int(0, 1 << 30)})
        ops.append({'op': 'ghost_resume'})
        return case
    if len(ops) >= 3 and g.chance(0.1):
        # a busy device answers one OPEN only after the host has given up on it; that command times out, and what the device then
        # sends on the abandoned stream must not show up in any later command's output
        k = g.int(1, len(ops) - 2)
        ops[k].update({'rt': 2.0, 'tt': 1.0, 'expect_timeout': True})
        ops[k].pop('to', None)
        scn['device']['open_delay'] = {'nth': k - 1, 'delay': g.pick([2.5, 3.0, 4.0])}      # shorter than any later command's timeouts: only the one command times out
        if g.chance(0.6):
            scn['config']['idle_returns_empty'] = True
            scn['config']['idle_cost'] = 0.05
    elif g.chance(0.12):
        # the link dies somewhere in the session (RST / EOF / EIO at one transport call, for good): a command cut off before the
        # device closed its stream has no result -- it may raise anything, it must not return the part that happened to arrive
        scn['config']['faults'] = [{'at': g.int(4, 60), 'kind': g.pick(['reset', 'eof', 'oserror']), 'persistent': True}]
    return case


def _utf8_split(payloads):
    for p in payloads[:-1]:
        if p and (p[-1] & 0xC0) == 0xC0 or (len(p) > 1 and (p[-2] & 0xE0) == 0xE0 and (p[-1] & 0xC0) == 0x80):
            return True
    return False


def evaluate(case, tapes=None):
    out = blank()
    scn = case['scn']
    run, tape = run_scn(case, 'scn', 0, tapes)
    absorb(out, run, tape)
    if case.get('huge_output'):
        out['probes']['c01_output_gt_4mib'] = 1
    if case.get('big_equal_chunks'):
        out['probes']['c01_equal_large_payloads'] = 1
    fired = run.link.faults_fired
    if fired:
        victim = len(run.results[0])
        for i, rec in enumerate(run.results[0]):
            if rec['calls0'] <= fired[0][0] < rec.get('calls1', 1 << 60):
                victim = i
                break
        out['probes']['c01_link_died_mid_session'] = 1
        if victim < len(run.results[0]) and run.results[0][victim]['op'] != 'connect':
            out['probes']['c01_link_died_mid_command'] = 1
        probs = [p for p in O.check_session(run, scn, relaxed_from=victim) if p[0] == 'wrong-result'] + termination(run)
    else:
        probs = O.check_session(run, scn) + termination(run)
    out['violations'] = [p for p in probs if p[0] in OWN]
    out['notes'] = [p for p in O.monitors(run) if p]
    multi = False
    for s in run.device.all_streams:
        ps = s.sent_payloads
        if len(ps) >= 2 and (s.dest.startswith(b'shell:') or s.dest.startswith(b'exec:')):
            multi = True
            if any(len(p) == 0 for p in ps):
                out['probes']['empty_payload_wrte'] = out['probes'].get('empty_payload_wrte', 0) + 1
            if _utf8_split(ps):
                out['probes']['utf8_split_across_wrte'] = out['probes'].get('utf8_split_across_wrte', 0) + 1
        # per-stream ground truth: what was read off the wire is what was sent, in order
        if s.read_payloads != s.sent_payloads[:len(s.read_payloads)]:
            out['violations'].append(O.P('wrong-result', 'stream %d: payloads read differ from payloads sent' % s.local))
    if any(r['op'] == 'ghost' and r.get('ghost_parked') for r in run.results[0]):
        out['probes']['c01_ghost_left_packets_parked'] = 1
    for r in run.results[0]:
        if r['op'] == 'ghost_resume' and r['ok'] and getattr(run, 'ghosts', None):
            gop = [o for o in scn['actors'][0] if o['op'] == 'ghost'][0]
            gcmd = gop['scn']['actors'][0][1]['cmd']
            want = O.shell_payloads(gop['scn']['device'], gcmd)[1:]
            if r['value'] != want:
                out['violations'].append(O.P('wrong-result', 'the other device object\'s suspended streaming_shell, resumed after this object had worked, yielded %s; its device wrote %s' % (O.brief(r['value']), O.brief(want))))
    for r in run.results[0]:
        for n in r.get('nested') or []:
            if n['op'] == 'ss_consume' and n['spec'].get('expect_stale'):
                out['probes']['c01_stale_generator_resumed'] = 1
                if n['ok'] and n['value']:
                    out['violations'].append(O.P('wrong-result', 'a streaming_shell generator of the previous connection, resumed after close()/connect(), yielded %s' % O.brief(n['value'])))
    out['nontrivial'] = multi and run.link.frag_reads > 0
    out['digest'] = run.digest()
    out['sample'] = brief_scn(scn, run)
    return out
