"""C07 — push delivers the exact file bytes, within protocol size limits."""
import copy

from .. import oracles as O
from .. import scenario as S
from ..tape import Gen
from .common import absorb, blank, brief_scn, run_scn, termination

ID = 'C07'
LEVEL = 'exploration'
TIERS = {'quick': 4000, 'thorough': 150000}
RULE = ('seeded pushes of a real file, a BytesIO or a real directory (1-5 regular files, process cwd elsewhere with same-named decoy files or decoy directories, listdir order '
        'from the scenario) with sizes biased to 0, 1, chunk+-1, maxdata+-k, exact send-buffer fits and multiples of the chunk size, maxdata 4 KiB..1 MiB, '
        'device paths up to 1024 bytes, mode/mtime values (0 => now), progress callback absent / counting / raising (an Exception or a bare BaseException) / re-entering the device with a stat() (sync), BytesIO sources positioned past their start, one object connected twice to devices announcing different maxdata, a tenth of the cases against a device that answers FAIL (the call must raise), sync and async; the device\'s '
        'sync service decodes the stream. Cases with a callback are run again without it and the host packet logs compared. '
        'non-trivial = >= 2 host WRTEs on a sync stream or a directory push; distinct = event-log digests')
ASSUMPTIONS = ['local filesystem is a real temp dir per process; content is fully generated']
EXPECT_PROBES = {'all': ['c07_dir_push', 'c07_exact_fit', 'c07_callback', 'c07_multi_wrte', 'c07_file_source', 'c07_reentrant_callback', 'c07_reconnect_other_maxdata', 'c07_positioned_bytesio', 'c07_rejected_push', 'push_closed_without_status', 'c07_subdir_in_source']}
OWN = ('push-duplicate', 'push-missing', 'push-incomplete', 'push-content', 'push-mode', 'push-mtime', 'push-chunk', 'push-early-return', 'push-extra',
       'callback-count', 'callback-total', 'wrte-over-maxdata', 'cb-changes-wire', 'unexpected-exception', 'timeout-instead-of-result', 'hang', 'no-termination',
       'wrong-exception', 'missing-exception')


def _size(g, maxdata, path_len, mode, big):
    chunk = min(65536, maxdata // 2) or 2048
    c = g.int(0, 11)
    if c == 0:
        return 0
    if c == 1:
        return 1
    if c == 2:
        return chunk + g.int(-1, 1)
    if c == 3:
        return max(0, maxdata + g.int(-20, 20))
    if c == 4:
        return chunk * g.int(1, 4) + g.pick([0, 0, 1, -1])
    if c in (5, 6, 7):
        # exact fit of the send buffer: the WRTE payload lands on maxdata-1 / maxdata / maxdata+1
        fi = 8 + path_len + 1 + len(str(mode))
        n = max(0, (maxdata - fi - 9) // (8 + chunk))
        base = maxdata - fi - n * (8 + chunk) - 8
        r = base + g.pick([-1, 0, 1, -8, -9, -7])
        if 0 < r <= chunk:
            return n * chunk + r
        return chunk
    if c == 8:
        return g.int(2, 300)
    return g.int(1, big)


def generate(seed, tier):
    g = Gen(seed)
    big = 120000 if tier == 'quick' else 600000
    d = S.gen_device(g)
    d['maxdata'] = g.pick([4096, 4096, 4097, 5000, 8192, 16384, 65536, 131072, 131073, 262144, 1048576])
    ops = []
    for _ in range(g.int(1, 2)):
        path = '/data/local/tmp/' + g.pick(['p', 'ü', 'a,b', 'x' * g.int(1, 200), 'y' * g.pick([900, 1000])]) + str(g.int(0, 999))
        mode = g.pick([0o100644, 0o100777, 33272, 0o100600, 0o644, 0, 0o120777, 0o104755])      # also modes whose type bits are not S_IFREG: sent as given
        kind = g.pick(['bytesio', 'bytesio', 'file', 'file', 'dir'])
        op = {'op': 'push', 'src': kind, 'path': path, 'mode': mode, 'mtime': g.pick([0, 0, 1, 65535, 65536, 1234567890, 0xFFFFFFFF]), 'cb': g.pick([None, None, 'count', 'raise', 'raise_base'])}
        if g.chance(0.2):
            del op['mode']
        if kind == 'dir':
            names = []
            for i in range(g.int(1, 5)):
                names.append(g.pick(['a', 'b.txt', 'ü', 'x y', 'f']) + str(i))
            op['files'] = [{'name': n, 'content': {'seed': g.int(0, 1 << 30), 'size': _size(g, d['maxdata'], len(path) + 1 + len(n), op.get('mode', 33272), 20000), 'alpha': g.pick(['bin', 'ascii'])}} for n in names]
            order = list(names)
            g.r.shuffle(order)
            op['order'] = order
            op['decoy'] = g.pick([True, True, 'dirs', False])
            if g.chance(0.3):
                op['subdirs'] = []
            if g.chance(0.2):
                # a sub-directory among the files (listed before, between or after them): push() may refuse it, but every
                # regular file it does send goes out under its own name
                op['subdirs'] = ['sub%d' % j for j in range(g.int(1, 2))]
                for sdn in op['subdirs']:
                    order.insert(g.int(0, len(order)), sdn)
                op['may_raise'] = True
            d['cmds']['mkdir ' + path] = {'content': {'size': 0}, 'cuts': []}
        else:
            op['content'] = {'seed': g.int(0, 1 << 30), 'size': _size(g, d['maxdata'], len(path.encode()), op.get('mode', 33272), big), 'alpha': g.pick(['bin', 'bin', 'ff', 'zero'])}
        if kind != 'dir' and g.chance(0.15):
            op['cb'] = 'reenter'
            op['reenter_path'] = '/sdcard/reenter'
            d['fs']['/sdcard/reenter'] = {'mode': 0o100644, 'mtime': 5, 'content': {'seed': 1, 'size': 10, 'alpha': 'bin'}, 'records': [100]}
        if kind == 'bytesio' and g.chance(0.2):
            op['src_pos'] = g.pick([1, 5, 100, op['content']['size'] // 2, op['content']['size']])
            if op.get('cb') == 'reenter':
                op['cb'] = 'count'
        ops.append(S.timeouts(g, op))
    reconnect = g.chance(0.12) and len(ops) >= 1
    if reconnect:
        # one device object, two connections to devices announcing different maxdata
        d['maxdata_sessions'] = [g.pick([1048576, 262144, 65536]), g.pick([4096, 4096, 8192])]
        if g.chance(0.3):
            d['maxdata_sessions'].reverse()
        second = copy.deepcopy(ops[-1])
        second['path'] = second['path'] + '_2'
        if second.get('src') == 'dir':
            d['cmds']['mkdir ' + second['path']] = {'content': {'size': 0}, 'cuts': []}
        ops = ops + [{'op': 'maxchunk'}] + ([{'op': 'close'}] if g.chance(0.5) else []) + [{'op': 'connect'}, second, {'op': 'maxchunk'}]      # connect() alone re-connects, too
    if not reconnect and g.chance(0.1):
        # "push returns normally only after the device's sync OKAY": the device answers FAIL instead (at SEND, at a DATA record or
        # as the final status), for every source kind -- the call must raise
        d['push_fail'] = {'at': g.pick(['send', 'data', 'done', 'done']), 'n': g.int(1, 4), 'reason': g.pick([b'Read-only file system', b'No space left on device', b'']).hex(), 'cut_reason': g.chance(0.3)}
        d['fail_before_okay'] = g.chance(0.4)
        for op in ops:
            if op.get('cb') == 'reenter':
                op['cb'] = 'count'
    elif not reconnect and g.chance(0.06):
        # ... or answers nothing at all: after DONE the sync service dies and the device closes the stream. No sync OKAY, so no normal return
        d['push_close'] = {'after': 'done'}
        for op in ops:
            op.update({'rt': 1.0, 'tt': 0.5, 'expect_timeout': True})
            op.pop('to', None)
            if op.pop('may_raise', None):
                op['order'] = [n for n in op['order'] if n not in op['subdirs']]
                op['subdirs'] = []
            if op.get('cb') == 'reenter':
                op['cb'] = 'count'
    cfg = S.gen_config(g, 2000)
    scn = {'api': g.pick(['sync', 'async']), 'transport': 'mem', 'device': d, 'config': cfg, 'actors': [[S.timeouts(g, {'op': 'connect'})] + ops], 'object': {'banner': 'simhost'}}
    return {'seed': seed, 'scn': scn}


def _push_wire(run):
    """Per push stream: the host packets sent on it, ids removed (a re-entrant callback legitimately uses other ids)."""
    dev = run.device
    out = []
    for att in dev.push_attempts:
        s = dev.all_streams[att['stream']]
        # OKAYs answer the device's own packetisation of its reply, which may differ between the two runs; what is *sent* is OPEN / WRTE / CLSE
        out.append([(p[1], p[4], p[5]) for p in dev.host_pkts if p[0] == s.session and p[2] == s.local and p[1] in ('OPEN', 'WRTE', 'CLSE')])
    return out


def evaluate(case, tapes=None):
    out = blank()
    scn = case['scn']
    run, tape = run_scn(case, 'scn', 0, tapes, seed_idx=0)
    absorb(out, run, tape)
    probs = O.check_session(run, scn) + termination(run)
    for m in run.device.c04:
        if 'exceeds device maxdata' in m:
            probs.append(O.P('wrte-over-maxdata', m))
    pr = out['probes']
    ops = scn['actors'][0]
    has_cb = any(op.get('cb') for op in ops)
    if any(op.get('src') == 'dir' for op in ops):
        pr['c07_dir_push'] = 1
    if any(op.get('src') == 'file' for op in ops):
        pr['c07_file_source'] = 1
    if has_cb:
        pr['c07_callback'] = 1
    if scn['device'].get('maxdata_sessions'):
        pr['c07_reconnect_other_maxdata'] = 1
    if any(op.get('src_pos') for op in ops):
        pr['c07_positioned_bytesio'] = 1
    if any(op.get('subdirs') for op in ops):
        pr['c07_subdir_in_source'] = 1
    if scn['device'].get('push_fail') and any(not r['ok'] and r['op'] == 'push' for r in run.results[0]):
        pr['c07_rejected_push'] = 1
    if any(op.get('cb') == 'reenter' for op in ops) and scn['api'] == 'sync':
        pr['c07_reentrant_callback'] = 1
    multi = any(len(s.recv_payloads) >= 2 for s in run.device.all_streams)
    ops = [o for o in ops if o['op'] == 'push']
    if multi:
        pr['c07_multi_wrte'] = 1
    md = run.device.maxdata
    if any(len(p) in (md - 1, md) for s in run.device.all_streams for p in s.recv_payloads):
        pr['c07_exact_fit'] = 1
    if has_cb and all(r['ok'] for r in run.results[0]):
        s2 = copy.deepcopy(scn)
        for op in s2['actors'][0]:
            op.pop('cb', None)
            if op['op'] == 'push' and not op.get('mtime'):
                op['mtime'] = 77      # mtime 0 means "now", which legitimately differs between two runs
        c2 = dict(case)
        c2['scn_nocb'] = s2
        run2, tape2 = run_scn(c2, 'scn_nocb', 1, tapes, seed_idx=0)
        absorb(out, run2, tape2)
        run1 = run
        if any(op['op'] == 'push' and not op.get('mtime') for op in ops):
            s1 = copy.deepcopy(scn)
            for op in s1['actors'][0]:
                if op['op'] == 'push' and not op.get('mtime'):
                    op['mtime'] = 77
            c2['scn_cb77'] = s1
            run1, tape1 = run_scn(c2, 'scn_cb77', 2, tapes, seed_idx=0)
            absorb(out, run1, tape1)
        a, b = _push_wire(run1), _push_wire(run2)
        if a != b:
            probs.append(O.P('cb-changes-wire', 'what is sent on the push stream(s) differs with and without the progress callback (%d vs %d packets)' % (sum(map(len, a)), sum(map(len, b)))))
    out['violations'] = [p for p in probs if p[0] in OWN]
    out['nontrivial'] = multi or pr.get('c07_dir_push', 0) > 0
    out['digest'] = run.digest()
    out['sample'] = brief_scn(scn, run)
    out['sample']['pushed'] = [(p['path'][-20:], len(p['data']), p.get('mtime'), p['datas'][:4]) for p in run.device.pushed[:4]]
    return out
