"""C03 — inbound reassembly is independent of read fragmentation; corrupt packets are rejected."""
import copy

from .. import oracles as O
from .. import scenario as S
from ..tape import Gen
from .common import absorb, blank, brief_scn, exc_chain, run_scn, termination

ID = 'C03'
LEVEL = 'exploration'
TIERS = {'quick': 5000, 'thorough': 250000}
RULE = ('each case is one session (connect, shell family, list, stat, pull, push) executed with whole-buffer reads and again under a seeded '
        'fragmentation policy (1-byte, uniform, boundary-biased, mixed, with interspersed empty reads); results and host packet logs must be '
        'identical and equal to ground truth, no read may ask for more than remains in the current header/payload; a third of the cases '
        'instead corrupt one packet on the wire (byte flip, bit flip, unknown command word -- alone, with a payload that no longer matches its checksum, or with the payload withheld; all-zero payloads included) and demand '
        'InvalidChecksumError / InvalidCommandError. non-trivial = a header or payload was delivered in >= 2 reads, or a corruption fired')
ASSUMPTIONS = ['a byte-sum checksum detects every single-byte and single-bit change, so the corruption oracle has no false negatives by construction']
EXPECT_PROBES = {'all': ['hdr_split', 'payload_split', 'empty_reads', 'corrupt_payload', 'corrupt_cmd', 'corrupt_cmd_and_payload', 'corrupt_cmd_magic_intact', 'corrupt_cmd_payload_withheld', 'corrupt_allzero_payload', 'noise_packet', 'corrupt_noise_packet']}
KINDS = ['shell', 'exec_out', 'streaming_shell', 'list', 'stat', 'pull', 'push']
OWN = ('wrong-result', 'unexpected-exception', 'timeout-instead-of-result', 'missing-exception', 'wrong-exception', 'hang', 'no-termination',
       'over-read', 'frag-differs', 'corrupt-delivered', 'corrupt-wrong-exception')


def generate(seed, tier):
    g = Gen(seed)
    big = 20000 if tier == 'quick' else 150000
    scn = S.session(g.int(0, 1 << 60), KINDS, nmax=5, big=big)
    if scn['config']['frag'] == 'whole':
        scn['config']['frag'] = g.pick(['mixed', 'boundary', 'uniform'])
        scn['config']['p_empty'] = g.pick([0.0, 0.05])
    for op in scn['actors'][0]:
        if op['op'] == 'push' and not op.get('mtime'):
            op['mtime'] = 1234      # mtime 0 means 'now', which legitimately differs between the paired runs (fragmented delivery takes longer)
    if g.chance(0.25):
        # a device that announces a newer protocol version: the connection still runs at the library's 0x01000000, checksums stay mandatory
        scn['device']['version'] = g.pick([0x01000001, 0x01000001, 0x01000002, 0xFFFFFFFF])
    case = {'seed': seed, 'scn': scn}
    if g.chance(0.35):
        case['corrupt'] = {'pick': g.int(0, 1 << 30), 'kind': g.pick(['byte', 'bit', 'cmd', 'cmd']), 'off': g.int(0, 1 << 20), 'bitno': g.int(0, 7), 'delta': g.int(0, 253)}
        if g.chance(0.3):
            case['corrupt']['word'] = g.pick([0x59414b4e, 0x5a414b4f, 0x4e45504e, 0x4f4b4159, 0, 0xFFFFFFFF, 0x45545258, g.int(0, 0xFFFFFFFF)])
        if case['corrupt']['kind'] == 'cmd' and g.chance(0.3):
            case['corrupt']['keep_magic'] = True
        if case['corrupt']['kind'] == 'cmd' and g.chance(0.4):
            # the unknown command word must be rejected at the header, whatever the rest of that packet looks like
            case['corrupt']['payload'] = g.pick(['flip', 'withhold'])
        if g.chance(0.3):
            # packets for streams nobody is reading are interleaved, and one of *those* gets the unknown command word / flipped byte
            scn['device']['noise_every'] = g.pick([1, 2, 3])
            case['corrupt']['noise_only'] = True
        # make all-zero payloads (checksum word 0) common in the corruption batch
        if g.chance(0.4):
            for c in scn['device']['cmds'].values():
                c['content']['alpha'] = 'zero'
            for f in scn['device']['fs'].values():
                f['content']['alpha'] = 'zero'
    return {**case}


def _summary(run):
    return [[(r['op'], r['ok'], r['exc'], O._dig if False else None) for r in a] for a in run.results]


def _res_key(rec):
    from ..runner import _dig
    v = rec.get('dest_bytes') if rec['op'] == 'pull' else rec.get('value')
    if rec['op'] == 'list' and rec['ok']:
        v = O.norm_list(v)
    return (rec['op'], rec['ok'], rec['exc'], _dig(v))


def evaluate(case, tapes=None):
    out = blank()
    scn = case['scn']
    whole = copy.deepcopy(scn)
    whole['config']['frag'] = 'whole'
    whole['config']['p_empty'] = 0.0
    c0 = dict(case)
    c0['scn_whole'] = whole
    run0, tape0 = run_scn(c0, 'scn_whole', 0, tapes, seed_idx=0)
    absorb(out, run0, tape0)
    probs = O.check_session(run0, whole) + termination(run0) + O.monitors(run0, ('c03',))
    cor = case.get('corrupt')
    if not cor:
        run1, tape1 = run_scn(case, 'scn', 1, tapes, seed_idx=0)
        absorb(out, run1, tape1)
        probs += O.check_session(run1, scn) + termination(run1) + O.monitors(run1, ('c03',))
        k0 = [_res_key(r) for r in run0.results[0]]
        k1 = [_res_key(r) for r in run1.results[0]]
        if k0 != k1:
            j = next((i for i in range(min(len(k0), len(k1))) if k0[i] != k1[i]), min(len(k0), len(k1)))
            probs.append(O.P('frag-differs', 'results differ between whole-buffer and fragmented delivery at op#%d: %r vs %r' % (j, k0[j:j + 1], k1[j:j + 1])))
        if run0.device.host_pkts != run1.device.host_pkts:
            probs.append(O.P('frag-differs', 'host packet log differs between whole-buffer and fragmented delivery (%d vs %d packets)' % (len(run0.device.host_pkts), len(run1.device.host_pkts))))
        out['nontrivial'] = run1.link.hdr_split + run1.link.payload_split > 0
        out['digest'] = run1.digest()
        out['sample'] = brief_scn(scn, run1)
    else:
        n = run0.device.total_emitted
        s2 = copy.deepcopy(scn)
        at = cor['pick'] % max(1, n)
        s2['device']['corrupt'] = {'at': at, 'kind': cor['kind'], 'off': cor['off'], 'bitno': cor['bitno'], 'delta': cor['delta'], 'noise_only': bool(cor.get('noise_only'))}
        if 'word' in cor:
            s2['device']['corrupt']['word'] = cor['word']
        if cor.get('payload'):
            s2['device']['corrupt']['payload'] = cor['payload']
        if cor.get('keep_magic'):
            s2['device']['corrupt']['keep_magic'] = True
        c2 = dict(case)
        c2['scn_corrupt'] = s2
        run1, tape1 = run_scn(c2, 'scn_corrupt', 1, tapes, seed_idx=0)
        absorb(out, run1, tape1)
        fired = run1.probes.get('corrupt_payload', 0) + run1.probes.get('corrupt_cmd', 0)
        if fired:
            want = 'InvalidChecksumError' if run1.probes.get('corrupt_payload') else 'InvalidCommandError'
            word = s2['device']['corrupt'].get('word')
            recs = run1.results[0]
            bad = [i for i, r in enumerate(recs) if not r['ok']]
            from .. import wire as W
            if want == 'InvalidCommandError' and word in W.NAMES:
                pass     # the substituted word happens to be a valid command: nothing to demand
            elif not bad:
                probs.append(O.P('corrupt-delivered', 'packet #%d was corrupted on the wire (%s) but every call returned normally' % (at, cor['kind'])))
            else:
                r = recs[bad[0]]
                # pull closes its stream in a finally-clause; an error met there chains the original one (__context__)
                if want not in exc_chain(r):
                    probs.append(O.P('corrupt-wrong-exception', 'packet #%d corrupted (%s): op#%d %s raised %s(%s), expected %s' % (at, cor['kind'], bad[0], r['op'], r['exc'], r.get('msg'), want)))
                # ops before the failing one must be correct
                probs += [p for p in O.check_session(run1, s2, relaxed_from=bad[0]) if p[0] == 'wrong-result']
        out['nontrivial'] = bool(fired)
        out['digest'] = run1.digest()
        out['sample'] = brief_scn(s2, run1)
        out['sample']['corrupt'] = s2['device']['corrupt']
    out['violations'] = [p for p in probs if p[0] in OWN]
    return out
