#!/bin/sh
# run every registered check (quick by default): ./runall.sh [quick|thorough]
TIER="${1:-quick}"
cd "$(dirname "$0")" || exit 2
rc=0
for f in simadb/props/C??.py; do
  p=$(basename "$f" .py)
  ./check "$p" --tier "$TIER" > ".scratch-$p.log" 2>&1
  c=$?
  tail -n 3 ".scratch-$p.log" | grep -E "^(C[0-9]+:|VIOLATION|KNOWN|HARNESS)" 
  grep -E "^(VIOLATION|HARNESS-ERROR|WARNING)" ".scratch-$p.log" | head -5
  [ $c -ne 0 ] && rc=$c && echo "$p exit $c"
  rm -f ".scratch-$p.log"
done
exit $rc
